"""Process pool for the bounded drivers.  Every library call on generated text runs in a worker with an address-space
limit and a per-task alarm: the repository has (had) inputs on which parsing does not terminate."""
import importlib
import multiprocessing as mp
import os
import resource
import signal
import time
import traceback
import warnings


class TaskTimeout(Exception):
    pass


def _alarm(signum, frame):
    raise TaskTimeout()


def _init():
    warnings.filterwarnings("ignore")
    gb = int(os.environ.get("VERIF_WORKER_GB", "4"))
    try:
        resource.setrlimit(resource.RLIMIT_AS, (gb * 1024 ** 3, gb * 1024 ** 3))
    except Exception:
        pass
    signal.signal(signal.SIGALRM, _alarm)
    try:
        from rdkit import RDLogger
        RDLogger.DisableLog("rdApp.*")
    except Exception:
        pass


def _call(args):
    modname, fname, task, timeout = args
    signal.alarm(int(timeout))
    t0 = time.time()
    try:
        mod = importlib.import_module(modname)
        r = getattr(mod, fname)(task)
        r = r if isinstance(r, dict) else {"result": r}
        r["seconds"] = time.time() - t0
        return r
    except TaskTimeout:
        return {"timeout": True, "task": _brief(task), "seconds": time.time() - t0}
    except MemoryError:
        return {"memory": True, "task": _brief(task), "seconds": time.time() - t0}
    except Exception as e:
        return {"crash": f"{type(e).__name__}: {e}", "trace": traceback.format_exc()[-1500:], "task": _brief(task)}
    finally:
        signal.alarm(0)


def raised_in_checker(e):
    """True if the innermost frame of the exception is code of /verif (a checker bug, never a property violation)"""
    tb = e.__traceback__
    last = None
    while tb is not None:
        last = tb
        tb = tb.tb_next
    fn = last.tb_frame.f_code.co_filename if last is not None else ""
    here = os.path.dirname(os.path.dirname(os.path.abspath(__file__)))
    return fn.startswith(here) and "/.venv/" not in fn


def _brief(task):
    s = repr(task)
    return s if len(s) < 300 else s[:300] + "..."


def run_tasks(modname, fname, tasks, timeout=60, jobs=None):
    jobs = jobs or int(os.environ.get("VERIF_JOBS", "14"))
    if not tasks:
        return []
    ctx = mp.get_context("fork")
    with ctx.Pool(min(jobs, len(tasks)), initializer=_init, maxtasksperchild=50) as pool:
        return pool.map(_call, [(modname, fname, t, timeout) for t in tasks], chunksize=1)


def merge(results, rule, exhaustive=False):
    """combine worker dicts: evaluations (sum), distinct (set union of keys), samples (first few), violations (all)"""
    out = {"evaluations": 0, "violations": [], "samples": [], "rule": rule, "exhaustive": exhaustive, "timeouts": [], "crashes": [],
           "per_clause": {}, "outside_pre": 0, "sort_errors": []}
    distinct = set()
    for r in results:
        out["evaluations"] += int(r.get("evaluations", 0))
        distinct |= set(r.get("distinct", []))
        out["violations"] += r.get("violations", [])
        for s in r.get("samples", []):
            if len(out["samples"]) < 10:
                out["samples"].append(s)
        if r.get("timeout") or r.get("memory"):
            out["timeouts"].append(r.get("task"))
        if r.get("crash"):
            out["crashes"].append({"task": r.get("task"), "error": r["crash"], "trace": r.get("trace")})
        for k, v in r.get("per_clause", {}).items():
            out["per_clause"][k] = out["per_clause"].get(k, 0) + v
        out["outside_pre"] += r.get("outside_pre", 0)
        for e in r.get("sort_errors", []):
            if e not in out["sort_errors"] and len(out["sort_errors"]) < 20:
                out["sort_errors"].append(e)
    out["distinct_nontrivial"] = len(distinct)
    # de-duplicate violations by key, keep first witness of each
    seen, uniq = set(), []
    for v in out["violations"]:
        k = v.get("key")
        if k in seen:
            continue
        seen.add(k)
        uniq.append(v)
    out["violations"] = uniq
    return out
