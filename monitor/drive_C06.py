"""Bounded layer for C06: clauses of C06 evaluated on audited generations of the real code (see monitor/gendrive.py)."""
from . import gendrive


def run(tier="quick", seed=0):
    return gendrive.run_for(["C06"], tier, seed)
