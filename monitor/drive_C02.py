"""Bounded layer for C02: parsing recovers the structure the notation denotes.

(a) molecules printed from structured descriptions by an independent printer (corpus.py), in several number formats and
    whitespace styles: element kinds and order, terminals, repeat / end tokens, every descriptor's symbol, id, weight or
    transition list (weight = sum of the list, default 1), distribution family and parameters, mixture specification.
(b) tokens printed from random SMILES trees: for every descriptor, the atom it binds to and the bond order, with RDKit as the
    oracle of "as if the descriptor were an atom written at that position" (descriptor -> isotope-labelled dummy atom).
"""
import random
import re
import warnings

from rdkit import Chem

from . import corpus, harness


def want_weight(w):
    if w is None:
        return 1.0, None
    if isinstance(w, (list, tuple)):
        return float(sum(w)), [float(x) for x in w]
    return float(w), None


def cmp_desc(b, d, where, viol, inp):
    K = "C02/BondDescriptor.__init__/post"
    w, tr = want_weight(d["weight"])
    got_tr = None if b.transitions is None else [float(x) for x in b.transitions]
    if b.descriptor != d["sym"] or str(b.descriptor_id) != str(d["id"]):
        viol.append({"key": K + "[symbol-id]", "clause": "symbol and numeric id as written", "detail": {"where": where, "got": (b.descriptor, b.descriptor_id), "want": (d["sym"], d["id"])}, "input": inp})
    if abs(float(b.weight) - w) > 1e-9 * max(1, abs(w)) or (got_tr is None) != (tr is None) or (tr and any(abs(x - y) > 1e-9 * max(1, abs(y)) for x, y in zip(got_tr, tr))):
        viol.append({"key": K + "[weight]", "clause": "weight or transition list as written; default 1; a list's total is its sum",
                     "detail": {"where": where, "got": (float(b.weight), got_tr), "want": (w, tr)}, "input": inp})


DIST_PARAMS = {"gauss": ("Gauss", ["_mu", "_sigma"]), "uniform": ("Uniform", ["_low", "_high"]), "schulz_zimm": ("SchulzZimm", ["_Mw", "_Mn"]),
               "log_normal": ("LogNormal", ["_M", "_D"]), "poisson": ("Poisson", ["_N"]), "flory_schulz": ("FlorySchulz", ["_a"])}


def cmp_dist(obj, text, viol, inp):
    m = re.match(r"\s*([a-z_]+)\s*\(([^)]*)\)", text)
    fam, names = DIST_PARAMS[m.group(1)]
    nums = [float(x) for x in m.group(2).split(",")]
    K = "C02/get_distribution/post"
    if type(obj).__name__ != fam:
        viol.append({"key": K + "[family]", "clause": "distribution family as named", "detail": {"got": type(obj).__name__, "want": fam}, "input": inp})
        return
    got = [float(getattr(obj, n)) for n in names]
    if any(abs(g - w) > 1e-9 * max(1, abs(w)) for g, w in zip(got, nums)):
        viol.append({"key": K + "[parameters]", "clause": "first written number is the first documented parameter, second the second",
                     "detail": {"got": dict(zip(names, got)), "want": nums}, "input": inp})


def check_molecule(ast, style, ws, viol):
    from gbigsmiles import Molecule
    from gbigsmiles.stochastic import Stochastic
    text = corpus.molecule_text(ast, True, style, ws)
    inp = {"text": text}
    with warnings.catch_warnings():
        warnings.simplefilter("ignore")
        mol = Molecule(text)
    els = mol._elements
    want = ast["elements"]
    K = "C02/Molecule.__init__/post"
    # the object invariants that the generator proofs assume of every parsed object (contracts: _STOCH_REQ, token_wf)
    from monitor.invcheck import failed_invariants
    for lab in failed_invariants(mol):
        viol.append({"key": f"C02/parse/post[assumed-invariant:{lab}]", "clause": "invariant of parsed objects that the generator contracts assume (stoch_inv / token_wf)",
                     "detail": {"invariant": lab}, "input": inp})
    if len(els) != len(want) or any(isinstance(e, Stochastic) != isinstance(w, dict) for e, w in zip(els, want)):
        viol.append({"key": K + "[elements]", "clause": "order and kind of elements", "detail": {"got": [type(e).__name__ for e in els], "want": len(want)}, "input": inp})
        return text
    for i, (e, w) in enumerate(zip(els, want)):
        if isinstance(w, dict):
            cmp_desc(e.left_terminal, w["left"], f"element {i} left terminal", viol, inp)
            cmp_desc(e.right_terminal, w["right"], f"element {i} right terminal", viol, inp)
            for part, toks in (("repeat", e.repeat_tokens), ("end", e.end_tokens)):
                if len(toks) != len(w[part]):
                    viol.append({"key": "C02/Stochastic.__init__/post[tokens]", "clause": "repeat units and end groups as written",
                                 "detail": {"element": i, "part": part, "got": len(toks), "want": len(w[part])}, "input": inp})
                    continue
                for t, wt in zip(toks, w[part]):
                    wd = [p for p in wt if isinstance(p, dict)]
                    if len(t.bond_descriptors) != len(wd):
                        viol.append({"key": "C02/SmilesToken.__init__/post[descriptor-count]", "clause": "every written descriptor is recovered",
                                     "detail": {"token": corpus.token_text(wt)}, "input": inp})
                        continue
                    for b, d in zip(t.bond_descriptors, wd):
                        cmp_desc(b, d, f"element {i} token {corpus.token_text(wt, False)}", viol, inp)
            if w.get("dist"):
                if e.distribution is None:
                    viol.append({"key": "C02/Stochastic.__init__/post[distribution]", "clause": "the distribution is recovered", "detail": {"element": i}, "input": inp})
                else:
                    cmp_dist(e.distribution, w["dist"], viol, inp)
        else:
            wd = [p for p in w if isinstance(p, dict)]
            written = [b for b in e.bond_descriptors]
            # tokens get automatic descriptors towards their neighbours; the written ones must be among them, in order
            k = 0
            for d in wd:
                while k < len(written) and written[k].descriptor != d["sym"]:
                    k += 1
                if k == len(written):
                    viol.append({"key": "C02/SmilesToken.__init__/post[descriptor-count]", "clause": "every written descriptor is recovered",
                                 "detail": {"token": corpus.token_text(w)}, "input": inp})
                    break
                k += 1
    return text


# ------------------------------------------------------------------ (b) token trees with the RDKit oracle
ATOMS = ["C", "C", "C", "N", "O", "S", "Cl", "Br", "[Si]", "F", "[NH3+]", "c1ccccc1", "C(=O)", "P"]
TERMINAL_ONLY = {"Cl", "Br", "F"}


def gen_token(rng, depth=0, n_desc=2):
    """list of pieces: atom strings, '(' ')' and descriptor dicts.  Descriptors sit first, last, or as / at the end of a branch."""
    pieces = []
    descs = []

    def mk_desc():
        sym = rng.choice(["$", "<", ">"])
        idn = rng.choice(["", "", 1, 12, 123])
        w = rng.choice([None, None, 2, 0.5, [1, 2, 3], 0])
        pref = rng.choice(["", "", "", "=", "#"]) if False else ""
        d = corpus.bd(sym, idn, w, "")
        d["bondchar"] = rng.choice(["", "", "", "=", "#"])
        descs.append(d)
        return d

    budget = [n_desc]
    if rng.random() < 0.6 and budget[0] > 0:
        d = mk_desc()
        d["pos"] = "first"
        pieces.append(d)
        budget[0] -= 1
    n_atoms = rng.randint(1, 5)
    for i in range(n_atoms):
        a = rng.choice([x for x in ATOMS if not (x in TERMINAL_ONLY and i < n_atoms - 1)] if i else ["C", "N", "[Si]", "C", "P"])
        pieces.append(a)
        if a in TERMINAL_ONLY:
            break
        # branches on this atom
        nb = rng.choice([0, 0, 1, 1, 2]) if a in ("C", "[Si]", "N", "P") else 0
        if i == n_atoms - 1 and rng.random() < 0.5:
            nb = 0
        for _ in range(nb):
            r = rng.random()
            if r < 0.45 and budget[0] > 0:
                d = mk_desc()
                d["pos"] = "branch-only"
                pieces += ["(", d, ")"]
                budget[0] -= 1
            elif r < 0.75 and depth < 2:
                sub = rng.choice(["C", "CC", "N", "C(F)(F)F", "OC", "c1ccccc1"])
                if rng.random() < 0.4 and budget[0] > 0:
                    d = mk_desc()
                    d["pos"] = "branch-end"
                    pieces += ["(", sub, d, ")"]
                    budget[0] -= 1
                else:
                    pieces += ["(", sub, ")"]
            else:
                pieces += ["(", rng.choice(["C", "=O", "F", "N"]), ")"]
    if budget[0] > 0 and pieces and not isinstance(pieces[-1], dict) and pieces[-1] not in TERMINAL_ONLY | {")"} or (budget[0] > 0 and rng.random() < 0.5 and pieces[-1] == ")"):
        d = mk_desc()
        d["pos"] = "last"
        pieces.append(d)
    return pieces, descs


def token_strings(pieces):
    """(G-BigSMILES token text, SMILES with isotope-labelled dummy atoms in place of the descriptors)"""
    big, smi = "", ""
    k = 0
    for i, p in enumerate(pieces):
        if isinstance(p, dict):
            k += 1
            bc = p["bondchar"]
            if p.get("pos") == "first":
                # a leading descriptor: the bond character follows it ( [$]=C )
                big += corpus.bd_text(p) + bc
                smi += f"[{k}*]" + bc
            else:
                big += bc + corpus.bd_text(p)
                smi += bc + f"[{k}*]"
        else:
            big += p
            smi += p
    return big, smi


def oracle(smi, n_desc):
    m = Chem.MolFromSmiles(smi, sanitize=False)
    if m is None:
        return None
    real = [a.GetIdx() for a in m.GetAtoms() if a.GetAtomicNum() != 0]
    pos = {idx: i for i, idx in enumerate(real)}
    out = {}
    for a in m.GetAtoms():
        if a.GetAtomicNum() == 0:
            nb = a.GetNeighbors()
            if len(nb) != 1:
                return None
            b = m.GetBondBetweenAtoms(a.GetIdx(), nb[0].GetIdx())
            out[a.GetIsotope()] = (pos[nb[0].GetIdx()], int(b.GetBondType()))
    if len(out) != n_desc:
        return None
    return out


def check_token(rng, viol):
    from gbigsmiles.token import SmilesToken
    pieces, descs = gen_token(rng)
    if not descs:
        return None
    big, smi = token_strings(pieces)
    want = oracle(smi, len(descs))
    if want is None:
        return None
    # only tokens that are valid SMILES once the descriptors are removed
    plain = Chem.MolFromSmiles(re.sub(r"\[\d+\*\]", "[*]", smi), sanitize=False)
    if plain is None:
        return None
    try:
        with warnings.catch_warnings():
            warnings.simplefilter("ignore")
            tok = SmilesToken(big, 0, 0)
    except Exception as e:
        # descriptor that would bond to two atoms etc. are legitimately rejected; a well-formed token must parse
        return ("rejected", big)
    inp = {"token": big, "oracle_smiles": smi}
    K = "C02/SmilesToken.__init__/post"
    if len(tok.bond_descriptors) != len(descs):
        viol.append({"key": K + "[descriptor-count]", "clause": "every written descriptor is recovered", "detail": {"got": len(tok.bond_descriptors), "want": len(descs)}, "input": inp})
        return ("ok", big)
    for k, (b, d) in enumerate(zip(tok.bond_descriptors, descs), 1):
        cmp_desc(b, d, f"descriptor {k}", viol, inp)
        atom, order = want[k]
        if b.atom_bonding_to != atom:
            viol.append({"key": K + "[binding-atom]", "clause": "the atom a descriptor is attached to, as if it were an atom written at that position",
                         "detail": {"descriptor": k, "got": b.atom_bonding_to, "want": atom}, "input": inp})
        if int(b.bond_type) != order:
            viol.append({"key": K + "[bond-order]", "clause": "the bond order a descriptor will form, as if it were an atom written at that position",
                         "detail": {"descriptor": k, "got": int(b.bond_type), "want": order}, "input": inp})
    # atoms
    if len(tok.atoms) != sum(1 for a in plain.GetAtoms() if a.GetAtomicNum() != 0):
        viol.append({"key": K + "[atoms]", "clause": "the token's atoms", "detail": {"got": len(tok.atoms)}, "input": inp})
    return ("ok", big)


MIXTURES = [(".|5000|", "abs", 5000.0), (".|25%|", "rel", 25.0), (".|.5%|", "rel", 0.5), (".|.25|", "abs", 0.25), (".|5e3|", "abs", 5000.0),
            (".|5.|", "abs", 5.0), (".|0.5e2%|", "rel", 50.0), (".| 30 |", "abs", 30.0), (".|1234.5|", "abs", 1234.5), (".|100%|", "rel", 100.0)]


def work(task):
    viol, samples, distinct = [], [], set()
    evals = 0
    if task["kind"] == "molecules":
        for c in task["cases"]:
            for style, ws in task["styles"]:
                try:
                    t = check_molecule(c["ast"], style, ws, viol)
                    distinct.add(t)
                except Exception as e:
                    txt = corpus.molecule_text(c["ast"], True, style, ws)
                    tag = "[weight-with-trailing-dot]" if re.search(r"\d\.\|", txt) and "mixture" in str(e) else ""
                    viol.append({"key": "C02/Molecule.__init__/safe" + tag, "clause": "a string printed from a structured description is accepted",
                                 "detail": {"error": f"{type(e).__name__}: {str(e)[:100]}"}, "input": {"text": corpus.molecule_text(c["ast"], True, style, ws)}})
                evals += 1
        if task["cases"]:
            samples.append({"text": corpus.molecule_text(task["cases"][0]["ast"], True, 3, 2)})
    elif task["kind"] == "tokens":
        rng = random.Random(task["seed"])
        for _ in range(task["n"]):
            r = check_token(rng, viol)
            evals += 1
            if r and r[0] == "ok":
                distinct.add(r[1])
                if len(samples) < 3:
                    samples.append({"token": r[1]})
    elif task["kind"] == "mixtures":
        from gbigsmiles.mixture import Mixture
        for text, kind, val in MIXTURES:
            with warnings.catch_warnings():
                warnings.simplefilter("ignore")
                m = Mixture(text)
            got = m.absolute_mass if kind == "abs" else m.relative_mass
            other = m.relative_mass if kind == "abs" else m.absolute_mass
            evals += 1
            distinct.add(text)
            if got is None or abs(got - val) > 1e-9 * max(1, val) or other is not None:
                viol.append({"key": "C02/Mixture.__init__/post[value]", "clause": "the mixture specification as written ('%' = percentage, else absolute mass)",
                             "detail": {"got": (m.absolute_mass, m.relative_mass), "want": (kind, val)}, "input": {"text": text}})
    seen, uniq = set(), []
    for v in viol:
        if v["key"] not in seen:
            seen.add(v["key"])
            uniq.append(v)
    return {"evaluations": evals, "distinct": [hash(x) for x in distinct], "violations": uniq, "samples": samples}


def run(tier="quick", seed=0):
    cases = [c for c in corpus.archetypes(tier, seed)]
    styles = [(0, 0), (1, 1), (2, 0), (3, 2)]
    tasks = [{"kind": "molecules", "cases": cases[i:i + 6], "styles": styles} for i in range(0, len(cases), 6)]
    n = 250 if tier == "quick" else 4000
    tasks += [{"kind": "tokens", "seed": seed * 100 + i, "n": n} for i in range(12)]
    tasks += [{"kind": "mixtures"}]
    res = harness.run_tasks("monitor.drive_C02", "work", tasks, timeout=300 if tier == "quick" else 1500)
    res += harness.run_tasks("monitor.purecheck", "work", [{"fn": "token._push_pop_atom_branch", "tier": tier, "prop": "C02"}], timeout=600)
    out = harness.merge(res, rule="(a) archetype molecules printed by an independent printer in 4 number formats / 3 whitespace styles, compared with the "
                        "structured description; (b) random token trees (branches, bracket and two-letter atoms, rings, =/# towards descriptors, descriptors "
                        "first / last / inside a branch / as a branch of their own) with RDKit on the dummy-atom SMILES as oracle for binding atom and "
                        "bond order; (c) mixture float spellings; (d) token._push_pop_atom_branch on every text over '(', ')', 'C' up to length 6 (thorough: 9) x 5 stacks, "
                        "against the ensures clauses of its (proved) contract evaluated natively. distinct = distinct accepted texts")
    out["assumptions"] = ["bounded layer: only the generated strings; RDKit's SMILES parser is the oracle for 'as if an atom were written there'"]
    return out
