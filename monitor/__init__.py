"""Run-time contract monitor and bounded drivers (the bounded stand-in, DESIGN section 3)."""
