"""Bounded layer for C07: clauses of C07 evaluated on audited generations of the real code (see monitor/gendrive.py)."""
from . import gendrive


def run(tier="quick", seed=0):
    return gendrive.run_for(["C07"], tier, seed)
