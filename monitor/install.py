"""Installs the sidecar contracts as run-time monitors on the real functions (in-process monkeypatch; /repo untouched).

The requires / ensures / raises text of pyvc contracts is evaluated natively (monitor.native) around each real call.
A false `requires` means the call is outside the contract: counted, not checked.  Closures cannot be wrapped; their
contracts are monitored through the interfaces they use (choose_compatible_weight, attach_other, draw_mw, rng.choice).
"""
import copy
import functools
import importlib
import traceback

import numpy as np

from pyvc import registry as R
from .native import Env


class Violation(dict):
    pass


class Monitor:
    def __init__(self):
        self.violations = []
        self.evaluations = 0
        self.outside_pre = 0
        self.per_clause = {}
        self.ghost = {"choices": 0, "last_p": [], "last_n": 0, "last_cand": [], "last_pick": 0, "last_rng": None,
                      "last_norm": 0.0, "draws": 0, "last_draw": 0.0, "last_draw_rng": None}
        self._orig = []
        self.context = None     # set by drivers: description of the current input
        self.sort_errors = []

    # ------------------------------------------------------------------
    def record(self, key, label, clause, detail):
        v = Violation(key=f"{key}/{label}", function=key, clause=clause, detail=detail, input=self.context)
        if len(self.violations) < 50:
            self.violations.append(v)

    def wrap(self, key):
        c = R.CONTRACTS[key]
        parts = key.split(".")
        mod = importlib.import_module("gbigsmiles." + parts[0])
        holder = mod
        for p in parts[1:-1]:
            holder = getattr(holder, p)
        name = parts[-1]
        raw = holder.__dict__[name] if isinstance(holder, type) else getattr(holder, name)
        is_prop = isinstance(raw, property)
        fn = raw.fget if is_prop else raw
        mon = self
        names = list(c.params)
        need_old = any("old(" in e for e in c.ensures)
        need_pre_env = bool(c.raises) or need_old

        @functools.wraps(fn)
        def wrapper(*a, **kw):
            bound = dict(zip(names, a))
            bound.update(kw)
            for n in names:
                if n not in bound:
                    bound[n] = c.defaults[n].t if n in c.defaults and hasattr(c.defaults[n], "t") else None
            pre_args = bound
            if need_old:
                pre_args = {}
                for n, v in bound.items():
                    try:
                        pre_args[n] = v if isinstance(v, np.random.Generator) else copy.deepcopy(v)
                    except Exception:
                        pre_args[n] = v
            ghost_pre = dict(mon.ghost)
            env0 = Env(ghost_pre, pre_args, pre_args)
            try:
                ok = all(env0.holds(r) for r in c.requires)
            except Exception as e:
                ok = False
            if not ok:
                mon.outside_pre += 1
                return fn(*a, **kw)
            raise_conds = {}
            for exc, cond in c.raises.items():
                try:
                    raise_conds[exc] = env0.holds(cond)
                except Exception:
                    raise_conds[exc] = None
            try:
                res = fn(*a, **kw)
            except Exception as e:
                en = type(e).__name__
                mon.evaluations += 1
                declared = [x for x in list(c.raises) + list(c.raises_may) if _isa(e, x)]
                if not declared:
                    if getattr(e, "_verif_inner", False) is False and not c.trusted:
                        mon.record(key, f"safe[{en}]", f"{en} cannot be raised here", f"raised {en}: {str(e)[:120]}")
                else:
                    x = declared[0]
                    if x in c.raises and raise_conds.get(x) is False:
                        mon.record(key, f"raises-only[{x}]", c.raises[x], f"raised {en} although the condition is false")
                raise
            mon.evaluations += 1
            for exc, holds in raise_conds.items():
                if holds:
                    mon.record(key, f"must-raise[{exc}]", c.raises[exc], "returned normally although the condition holds")
            g = dict(mon.ghost)
            g["__pre__"] = ghost_pre
            for gn, gexpr in getattr(c, "native_ghost", {}).items():
                try:
                    g[gn] = Env(g, bound, pre_args, res).eval(gexpr)
                except Exception:
                    pass
            env = Env(g, bound, pre_args, res)
            for e in c.ensures:
                label = c.labels.get(e, str(c.ensures.index(e)))
                mon.per_clause[f"{key}/post[{label}]"] = mon.per_clause.get(f"{key}/post[{label}]", 0) + 1
                try:
                    okc = env.holds(e)
                except Exception as ex:
                    okc = None
                    mon.sort_errors.append(f"{key}/post[{label}]: {type(ex).__name__}: {str(ex)[:100]}")
                if okc is False:
                    mon.record(key, f"post[{label}]", e, _describe(bound, res))
            return res
        new = property(wrapper, raw.fset, raw.fdel) if is_prop else wrapper
        setattr(holder, name, new)
        self._orig.append((holder, name, raw))
        # names imported with `from .core import f` elsewhere keep the old binding: patch those too
        if not isinstance(holder, type):
            import sys
            for mname, m in list(sys.modules.items()):
                if mname.startswith("gbigsmiles") and m is not mod and getattr(m, name, None) is raw:
                    setattr(m, name, new)
                    self._orig.append((m, name, raw))

    def install(self, keys):
        for k in keys:
            self.wrap(k)
        return self

    def uninstall(self):
        for holder, name, raw in reversed(self._orig):
            setattr(holder, name, raw)
        self._orig = []


def _isa(e, name):
    return any(k.__name__ == name for k in type(e).__mro__)


def _describe(bound, res):
    out = {}
    for n, v in bound.items():
        out[n] = _short(v)
    out["result"] = _short(res)
    return out


def _short(v):
    try:
        if isinstance(v, (list, tuple)) or (hasattr(v, "shape") and getattr(v, "ndim", 0) == 1):
            return "[" + ", ".join(_short(x) for x in list(v)[:12]) + "]"
        if hasattr(v, "generate_string") and hasattr(v, "preceding_characters"):
            return f"{v.preceding_characters}{v.generate_string(True)}"
        if hasattr(v, "generate_string"):
            return str(v)[:120]
        return repr(v)[:80]
    except Exception:
        return f"<{type(v).__name__}>"


class RecordingRng(np.random.Generator):
    """a numpy Generator that records every choice(a, p) in the monitor's ghost state; optionally follows a script
    (index among the options with p > 0 at each decision) so that all choice sequences can be enumerated."""

    def __init__(self, seed=0, script=None, monitor=None, draws=None):
        super().__init__(np.random.PCG64(seed))
        self.script = list(script) if script is not None else None
        self.pos = 0
        self.log = []
        self.monitor = monitor
        self.draws = list(draws) if draws is not None else None   # scripted target masses for Distribution.draw_mw
        self.draw_pos = 0

    def choice(self, a, size=None, replace=True, p=None, axis=0, shuffle=True):
        if size is not None:
            return super().choice(a, size=size, replace=replace, p=p, axis=axis, shuffle=shuffle)
        cand = list(range(a)) if isinstance(a, (int, np.integer)) else list(a)
        if p is None:
            pv = np.full(len(cand), 1.0 / max(len(cand), 1))
        else:
            pv = np.asarray(p, dtype=float)
        # numpy's own validation, same messages in spirit
        if len(cand) == 0:
            raise ValueError("a cannot be empty unless no samples are taken")
        if pv.ndim != 1 or len(pv) != len(cand):
            raise ValueError("a and p must have same size")
        if np.any(np.isnan(pv)):
            raise ValueError("probabilities contain NaN")
        if np.any(pv < 0):
            raise ValueError("probabilities are not non-negative")
        if abs(float(np.sum(pv)) - 1.0) > np.sqrt(np.finfo(np.float64).eps):
            raise ValueError("probabilities do not sum to 1")
        options = [i for i, x in enumerate(pv) if x > 0]
        if self.script is not None:
            k = self.script[self.pos] if self.pos < len(self.script) else 0
            k = min(k, len(options) - 1)
            idx = options[k]
        else:
            idx = int(super().choice(len(cand), p=pv))
            k = options.index(idx) if idx in options else 0
        self.pos += 1
        self.log.append({"cand": [int(x) if isinstance(x, (int, np.integer)) else x for x in cand], "p": [float(x) for x in pv],
                         "options": len(options), "k": k, "picked": idx})
        m = self.monitor
        if m is not None:
            g = m.ghost
            g["choices"] = g["choices"] + 1
            g["last_p"], g["last_n"], g["last_cand"], g["last_pick"], g["last_rng"] = list(pv), len(cand), cand, idx, self
        r = cand[idx]
        return r


def enumerate_scripts(run, max_paths=200, max_depth=12):
    """depth-first enumeration of all choice sequences: run(script) -> (log, outcome).  Returns list of (script, log, outcome)
    and whether the enumeration was complete within the limits."""
    stack = [[]]
    out = []
    complete = True
    while stack:
        if len(out) >= max_paths:
            complete = False
            break
        script = stack.pop()
        log, outcome = run(script)
        out.append((script, log, outcome))
        if len(log) > max_depth:
            complete = False
        for pos in range(len(script), min(len(log), max_depth)):
            for alt in range(1, log[pos]["options"]):
                stack.append([e["k"] for e in log[:pos]] + [alt])
    return out, complete
