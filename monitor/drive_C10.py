"""Bounded layer for C10: random operation histories (parse / print / generate / reaction graph / stochastic atom graph /
atom-graph generation / typing) on two objects parsed from one string, with the library's global generator and numpy's legacy
global state disturbed in between; every result is compared with a baseline computed in a fresh process."""
import json
import os
import random
import subprocess
import sys
import warnings

from . import corpus, harness

OPS = ["print", "plain", "generable", "generate", "generate", "graph", "atomgraph", "aggen", "typing", "disturb", "reparse"]


def op_result(obj, op, seed):
    """canonical, comparable result of one operation"""
    import numpy as np
    from rdkit import Chem
    with warnings.catch_warnings():
        warnings.simplefilter("ignore")
        try:
            if op == "print":
                return str(obj)
            if op == "plain":
                return obj.generate_string(False)
            if op == "generable":
                return bool(obj.generable)
            if op == "generate":
                if not obj.generable:
                    return "not-generable"
                m = obj.generate(rng=np.random.default_rng(seed))
                return [m.smiles, round(float(m.weight), 6), bool(m.fully_generated)]
            if op == "graph":
                g = obj.gen_reaction_graph()
                return sorted([str(u), str(v), sorted((k, round(float(x), 10)) for k, x in d.items() if isinstance(x, (int, float)) or hasattr(x, "dtype"))] for u, v, d in g.edges(data=True))
            if op == "atomgraph":
                sg = obj.gen_stochastic_atom_graph(expect_schulz_zimm_distribution=False)
                return sorted([int(u), int(v), sorted((k, round(float(x), 10)) for k, x in d.items())] for u, v, d in sg.graph.edges(data=True))
            if op == "aggen":
                from gbigsmiles.distribution import SchulzZimm
                from gbigsmiles.graph_generate import AtomGraph
                from gbigsmiles.stochastic import Stochastic
                if not obj.generable or not all(isinstance(e.distribution, SchulzZimm) for e in obj._elements if isinstance(e, Stochastic)):
                    return "n/a"
                ag = AtomGraph(obj.gen_stochastic_atom_graph(), rng=np.random.default_rng(seed))
                ag.generate()
                return Chem.MolToSmiles(ag.to_mol())
            if op == "typing":
                from gbigsmiles.forcefield_helper import FfAssignmentError
                if not obj.generable:
                    return "not-generable"
                m = obj.generate(rng=np.random.default_rng(seed))
                if not m.fully_generated:
                    return "partial-molecule"
                try:
                    ff, mol = m.forcefield_types
                    return sorted([i, p.bond_type_name, round(p.charge, 4)] for i, p in ff.items())
                except FfAssignmentError as e:
                    return ["untypable", len(e.incomplete_ff_dict)]
        except Exception as e:
            return f"raised {type(e).__name__}"
    return None


def baseline_main():
    """run in a fresh process: python -m monitor.drive_C10 <json list of (text, op, seed)>"""
    from gbigsmiles import Molecule
    items = json.loads(sys.stdin.read())
    out = []
    for text, op, seed in items:
        with warnings.catch_warnings():
            warnings.simplefilter("ignore")
            o = Molecule(text)
        out.append(op_result(o, op, seed))
    sys.stdout.write("\n__BASELINE__" + json.dumps(out))


def fresh_baseline(items):
    env = dict(os.environ)
    here = os.path.dirname(os.path.dirname(os.path.abspath(__file__)))
    env["PYTHONPATH"] = here + os.pathsep + env.get("PYTHONPATH", "")
    p = subprocess.run([sys.executable, "-m", "monitor.drive_C10", "--baseline"], input=json.dumps(items), capture_output=True, text=True, cwd=here, env=env, timeout=600)
    if "__BASELINE__" not in p.stdout:
        raise RuntimeError("baseline process failed: " + p.stderr[-400:])
    return json.loads(p.stdout.split("__BASELINE__")[1])


def work(task):
    import numpy as np
    import gbigsmiles.core as core
    from gbigsmiles import Molecule
    rng = random.Random(task["seed"])
    viol, distinct, samples = [], set(), []
    evals = 0
    for text in task["texts"]:
        text = corpus.shrink_masses(text)
        try:
            with warnings.catch_warnings():
                warnings.simplefilter("ignore")
                objs = [Molecule(text), Molecule(text)]
        except Exception:
            continue
        seeds = [11, 12]
        keys = [(text, op, s) for op in dict.fromkeys(OPS) if op not in ("disturb", "reparse") for s in (seeds if op in ("generate", "aggen", "typing") else [0])]
        base = dict(zip(map(tuple, keys), fresh_baseline([list(k) for k in keys])))
        # exhaustive part: every ordered pair of observing operations on one freshly parsed instance (all histories of length 2)
        if task.get("pairs"):
            obs_ops = [op for op in dict.fromkeys(OPS) if op not in ("disturb", "reparse")]
            for op1 in obs_ops:
                for op2 in obs_ops:
                    with warnings.catch_warnings():
                        warnings.simplefilter("ignore")
                        o = Molecule(text)
                    hist = [[op1, 0, 11 if op1 in ("generate", "aggen", "typing") else 0], [op2, 0, 12 if op2 in ("generate", "aggen", "typing") else 0]]
                    for op, _, sd in hist:
                        got = json.loads(json.dumps(op_result(o, op, sd)))
                        evals += 1
                        if got != base[(text, op, sd)]:
                            viol.append({"key": f"C10/history/post[{op}-equals-fresh-process-baseline]",
                                         "clause": "the same string and seed give the same result whatever was parsed, generated, printed or typed before, on whichever instance",
                                         "detail": {"history": hist, "got": str(got)[:200], "fresh": str(base[(text, op, sd)])[:200]}, "input": {"text": text}})
                            break
                    distinct.add((text, tuple(map(tuple, hist))))
        for h in range(task["histories"]):
            hist = []
            for step in range(task["length"]):
                op = rng.choice(OPS)
                which = rng.randrange(2)
                seed = rng.choice(seeds) if op in ("generate", "aggen", "typing") else 0
                hist.append([op, which, seed])
                if op == "disturb":
                    np.random.seed(rng.randrange(10 ** 6))
                    core._GLOBAL_RNG.random(rng.randint(1, 7))
                    continue
                if op == "reparse":
                    with warnings.catch_warnings():
                        warnings.simplefilter("ignore")
                        objs[which] = Molecule(text)
                    continue
                got = json.loads(json.dumps(op_result(objs[which], op, seed)))
                want = base[(text, op, seed)]
                evals += 1
                if got != want:
                    viol.append({"key": f"C10/history/post[{op}-equals-fresh-process-baseline]",
                                 "clause": "the same string and seed give the same result whatever was parsed, generated, printed or typed before, on whichever instance",
                                 "detail": {"history": hist, "got": str(got)[:200], "fresh": str(want)[:200]}, "input": {"text": text}})
                    break
            distinct.add((text, tuple(map(tuple, hist))))
            if len(samples) < 1:
                samples.append({"text": text[:120], "history": hist})
    seen, uniq = set(), []
    for v in viol:
        if v["key"] not in seen:
            seen.add(v["key"])
            uniq.append(v)
    return {"evaluations": evals, "distinct": [hash(x) for x in distinct], "violations": uniq, "samples": samples}


def run(tier="quick", seed=0):
    cases = [c for c in corpus.archetypes(tier, seed)]
    texts = [c["text"] for c in cases]
    texts += ["CCC(C){[>][<]CC([>])c1ccccc1[<]}|schulz_zimm(300, 250)|{[>][<]CC([>])C(=O)OC[<]}|schulz_zimm(250, 200)|[H]",
              "{[][<]CC[>];[<]CO,[>]N=O[]}|schulz_zimm(200, 150)|"]
    if tier == "quick":
        rng = random.Random(seed)
        keep = [t for t in texts if "|3 0 1 0|" in t or "|0 1 3 0|" in t or "schulz_zimm(300" in t]
        rest = [t for t in texts if t not in keep]
        texts = keep + rng.sample(rest, 14)
    keep_set = {t for t in texts if "|3 0 1 0|" in t or "|0 1 3 0|" in t or "schulz_zimm(300" in t or "|9 1 0 0|" in t}
    tasks = [{"texts": [t], "seed": seed * 100 + i, "histories": 3 if tier == "quick" else 12, "length": 6 if tier == "quick" else 10,
              "pairs": t in keep_set or tier == "thorough"} for i, t in enumerate(texts)]
    res = harness.run_tasks("monitor.drive_C10", "work", tasks, timeout=900 if tier == "quick" else 3600)
    out = harness.merge(res, rule="random histories of {print, plain print, generable, generate(seed), reaction graph, stochastic atom graph, atom-graph generation(seed), "
                        "typing(seed), disturb the global generators, re-parse} on two instances of one string, and ALL ordered pairs of observing operations on one instance for the "
                        "strings that carry transition lists / Schulz-Zimm blocks; each result compared with a fresh-process baseline. "
                        "distinct = (string, history)")
    out["assumptions"] = ["bounded layer: random histories of bounded length on the enumerated strings",
                          "conformer coordinates (EmbedMolecule is randomly seeded) are not part of the compared outputs"]
    return out


if __name__ == "__main__":
    if "--baseline" in sys.argv:
        warnings.filterwarnings("ignore")
        baseline_main()
