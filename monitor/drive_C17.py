"""Bounded layer for C17: the stochastic atom graph of every molecule of the corpus against a graph built independently
from the parsed tokens with RDKit (atoms, internal bonds) and the conjugation rule (links)."""
import warnings

from rdkit import Chem

from . import corpus, harness
from .genaudit import bd_info, compat


def expected(mol):
    from gbigsmiles.stochastic import Stochastic
    nodes = {}          # id -> (Z, charge, aromatic)
    static = set()      # (a, b, order) both directions
    where = []          # per element: list of (token, offset, is_end)
    off = 0
    for e in mol._elements:
        toks = [(t, False) for t in e.repeat_tokens] + [(t, True) for t in e.end_tokens] if isinstance(e, Stochastic) else [(e, False)]
        lst = []
        for t, is_end in toks:
            m = Chem.MolFromSmiles(t.generate_smiles_fragment())
            for a in m.GetAtoms():
                nodes[off + a.GetIdx()] = (a.GetAtomicNum(), a.GetFormalCharge(), a.GetIsAromatic())
            for b in m.GetBonds():
                i, j, o = off + b.GetBeginAtomIdx(), off + b.GetEndAtomIdx(), int(b.GetBondType())
                static.add((i, j, o))
                static.add((j, i, o))
            lst.append((t, off, is_end))
            off += m.GetNumAtoms()
        where.append(lst)
    return nodes, static, where


def inv(t):
    return {"sym": t["sym"], "id": t["id"], "order": 1}


def check(mol, text, viol):
    from gbigsmiles.stochastic import Stochastic
    inp = {"text": text}
    K = "C17/StochasticAtomGraph.generate/post"
    with warnings.catch_warnings():
        warnings.simplefilter("ignore")
        sag = mol.gen_stochastic_atom_graph(expect_schulz_zimm_distribution=False)
    G = sag.graph
    nodes, static, where = expected(mol)
    got_nodes = {n: (d["atomic_num"], d["formal_charge"], d["aromatic"]) for n, d in G.nodes(data=True)}
    if got_nodes != nodes:
        viol.append({"key": K + "[nodes]", "clause": "exactly one node per atom of every token, with its element, charge and aromaticity",
                     "detail": {"got": len(got_nodes), "want": len(nodes), "diff": [k for k in nodes if got_nodes.get(k) != nodes[k]][:5]}, "input": inp})
        return
    got_static = {(u, v, int(d["bond_type"])) for u, v, d in G.edges(data=True) if d["static_weight"] != 0}
    if got_static != static:
        viol.append({"key": K + "[static-edges]", "clause": "static edges reproduce each token's internal bonds with their bond order",
                     "detail": {"missing": sorted(static - got_static)[:4], "extra": sorted(got_static - static)[:4]}, "input": inp})
    # the same graph object asked again: the same graph
    def sig(g):
        return (sorted((n, tuple(sorted((k, str(v)) for k, v in d.items()))) for n, d in g.nodes(data=True)),
                sorted((u, v, tuple(sorted((k, float(x)) for k, x in d.items()))) for u, v, d in g.edges(data=True)))
    first = sig(G)
    with warnings.catch_warnings():
        warnings.simplefilter("ignore")
        sag.generate()
    if sig(sag.graph) != first:
        viol.append({"key": K + "[repeatable]", "clause": "building the graph again on the same object gives the same graph",
                     "detail": {"nodes_first": len(first[0]), "nodes_second": sag.graph.number_of_nodes()}, "input": inp})
    # descriptor -> (node of its atom, info, element index, is_end, is_repeat_of_stochastic)
    dmap = []
    for ei, lst in enumerate(where):
        for t, off, is_end in lst:
            for b in t.bond_descriptors:
                dmap.append({"node": off + b.atom_bonding_to, "info": bd_info(b), "el": ei, "end": is_end, "bd": b})
    links = [(u, v, d) for u, v, d in G.edges(data=True) if d["static_weight"] == 0]
    by_pair = {}
    for u, v, d in links:
        by_pair.setdefault((u, v), []).append(d)
    end_nodes = set()
    for ei, lst in enumerate(where):
        for t, off, is_end in lst:
            if is_end:
                m = Chem.MolFromSmiles(t.generate_smiles_fragment())
                end_nodes |= set(range(off, off + m.GetNumAtoms()))
    for u, v, d in links:
        if u in end_nodes:
            viol.append({"key": K + "[no-edge-leaves-end-group]", "clause": "no non-static edge leaves an end group", "detail": {"edge": (u, v)}, "input": inp})
            break
    for u, v, d in links:
        ok = any(a["node"] == u and b["node"] == v and compat(a["info"], b["info"]) and int(d["bond_type"]) == a["info"]["order"] for a in dmap for b in dmap)
        if not ok:
            viol.append({"key": K + "[links-compatible]", "clause": "every other edge connects the attachment atoms of two compatible descriptors with their bond order",
                         "detail": {"edge": (u, v), "data": {k: float(x) for k, x in d.items()}}, "input": inp})
            break
    # completeness inside each stochastic object
    for ei, e in enumerate(mol._elements):
        if not isinstance(e, Stochastic):
            continue
        mine = [x for x in dmap if x["el"] == ei]
        for g in mine:
            if g["end"]:
                continue
            tr = g["info"]["transitions"]
            for k, o in enumerate(mine):
                if not compat(g["info"], o["info"]):
                    continue
                if tr is not None:
                    # the list is indexed over the object's descriptors in order
                    idx = e.bond_descriptors.index(o["bd"])
                    w = tr[idx] if idx < len(tr) else 0
                    if w > 0 and not any(abs(d["stochastic_weight"] - w) < 1e-12 for d in by_pair.get((g["node"], o["node"]), [])):
                        viol.append({"key": K + "[listed-links]", "clause": "links of a descriptor with a list carry the listed transition weight; none is missing",
                                     "detail": {"from": g["info"]["text"], "to": o["info"]["text"], "weight": w}, "input": inp})
                elif o["info"]["weight"] > 0:
                    kind = "termination_weight" if o["end"] else "stochastic_weight"
                    if not any(abs(d[kind] - o["info"]["weight"]) < 1e-12 for d in by_pair.get((g["node"], o["node"]), [])):
                        viol.append({"key": K + f"[{'termination' if o['end'] else 'stochastic'}-links]",
                                     "clause": "between repeat units a link carries the partner's weight, towards end groups it is a termination edge; none is missing",
                                     "detail": {"from": g["info"]["text"], "to": o["info"]["text"], "weight": o["info"]["weight"]}, "input": inp})
    # transition edges between consecutive elements: exactly the admissible pairs
    want_tr = set()
    for ei in range(len(mol._elements) - 1):
        L, Rr = mol._elements[ei], mol._elements[ei + 1]
        for a in [x for x in dmap if x["el"] == ei and not x["end"]]:
            if isinstance(L, Stochastic) and not compat(inv(bd_info(L.right_terminal)), dict(a["info"], order=1)):
                continue
            for b in [x for x in dmap if x["el"] == ei + 1 and not x["end"]]:
                if isinstance(Rr, Stochastic) and not compat(inv(bd_info(Rr.left_terminal)), dict(b["info"], order=1)):
                    continue
                if compat(a["info"], b["info"]):
                    want_tr.add((a["node"], b["node"], round(b["info"]["weight"], 12)))
    got_tr = {(u, v, round(float(d["transition_weight"]), 12)) for u, v, d in links
              if d["transition_weight"] != 0 or (d["stochastic_weight"] == 0 and d["termination_weight"] == 0)}
    # zero-weight transitions are indistinguishable from absent ones for the generator: compare on the positive ones
    wp = {x for x in want_tr if x[2] > 0}
    gp = {x for x in got_tr if x[2] > 0}
    if wp != gp:
        viol.append({"key": K + "[transition-edges]", "clause": "transition edges join consecutive elements through descriptors that respect the terminal descriptors; none is missing, none leaves an end group",
                     "detail": {"missing": sorted(wp - gp)[:4], "extra": sorted(gp - wp)[:4]}, "input": inp})


def work(task):
    from gbigsmiles import Molecule
    viol, distinct, samples = [], set(), []
    evals = 0
    for text in task["texts"]:
        try:
            with warnings.catch_warnings():
                warnings.simplefilter("ignore")
                mol = Molecule(corpus.shrink_masses(text))
        except Exception:
            continue
        try:
            check(mol, text, viol)
        except Exception as e:
            if harness.raised_in_checker(e):
                raise
            viol.append({"key": f"C17/StochasticAtomGraph.generate/safe[{type(e).__name__}]", "clause": "the stochastic atom graph of an accepted molecule can be built",
                         "detail": {"error": str(e)[:100]}, "input": {"text": text}})
        evals += 1
        distinct.add(text)
        if len(samples) < 1:
            samples.append({"text": text[:160]})
    seen, uniq = set(), []
    for v in viol:
        if v["key"] not in seen:
            seen.add(v["key"])
            uniq.append(v)
    return {"evaluations": evals, "distinct": [hash(x) for x in distinct], "violations": uniq, "samples": samples}


def run(tier="quick", seed=0):
    cases = [c for c in corpus.all_cases(tier, seed) if c["kind"] == "molecule"]
    texts = [c["text"] for c in cases]
    tasks = [{"texts": texts[i:i + 5]} for i in range(0, len(texts), 5)]
    res = harness.run_tasks("monitor.drive_C17", "work", tasks, timeout=600)
    out = harness.merge(res, rule="every molecule of the corpus (with and without Schulz-Zimm distributions): nodes, static edges, links inside stochastic objects and "
                        "transition edges compared with a graph built independently from the parsed tokens (RDKit atoms / bonds, conjugation rule). distinct = molecules")
    out["timeouts_ignored"] = out.pop("timeouts")
    out["timeouts"] = []
    out["assumptions"] = ["bounded layer: only the enumerated molecules; RDKit is the oracle for atoms and bonds of a token"]
    return out
