"""Bounded-exhaustive stand-in for small pure functions that are also under proof: the SAME contract text (requires / ensures from contracts/*.py) is
evaluated natively on the real function for every argument of a small finite domain.  Its purpose is the replayable input: when the function is rewritten
so that its loop contract no longer applies, the proof side can only say "contract out of date" (undecided); this layer then finds the failing input, if
the rewrite is wrong, or stays quiet, if it is equivalent.  Labelled bounded, never counted as proved."""
import copy
import itertools

from pyvc import registry as R

from . import native


def _depth(s, i):
    return s[:i].count("(") - s[:i].count(")")


def _rlow(s, i):
    return min([0] + [_depth(s, k) for k in range(1, i + 1)])


import math

import numpy as np

SPEC_UFUNCS = {"char_at": lambda s, i: s[i] if 0 <= i < len(s) else "", "depth": _depth, "rlow": _rlow,
               "rgamma": math.gamma, "rexp": math.exp, "rlog": math.log, "rsqrt": math.sqrt, "np_pi": math.pi}


def law_domain(key, tier):
    """argument grids of the three documented formulas; numpy scalars, as scipy hands them over.  Boundary cases on purpose: mass 0 and 1, z == 1
    (Mw == 2 Mn: the exponent of M vanishes), z < 1, narrow and broad laws."""
    f = np.float64
    more = tier != "quick"
    if "schulz_zimm" in key:
        for z in [0.5, 1.0, 2.0, 9.0, 14.0] + ([1.5, 3.0, 40.0] if more else []):
            for Mn in [20.0, 100.0, 1400.0]:
                for M in [0, 1, 2, 10, 100, 1000, 5000]:
                    if M == 0 and z < 1:
                        continue            # the documented formula has a pole there
                    yield {"self": None, "M": f(M), "z": f(z), "Mn": f(Mn)}
    elif "flory_schulz" in key:
        for a in [0.001, 0.01, 0.1, 0.3, 0.6, 0.999]:
            for k in [1, 2, 3, 10, 100, 1000]:
                yield {"self": None, "k": f(k), "a": f(a)}
    else:
        for D in [1.05, 1.1, 1.6, 2.5]:
            for M in [20.0, 50.0, 300.0, 1000.0]:
                for m in [0.5, 1.0, 10.0, 50.0, 300.0, 5000.0]:
                    yield {"self": None, "m": f(m), "M": f(M), "D": f(D)}


def push_pop_domain(tier):
    n = 6 if tier == "quick" else 9
    stacks = [[5], [5, 7], [3, 4, 9], [-1], [0, 2, 1, 8]]
    for k in range(n + 1):
        for chars in itertools.product("()C", repeat=k):
            for st in stacks:
                yield {"string": "".join(chars), "atom_to_bond": list(st)}


def check_function(key, domain, prop, fn):
    c = R.CONTRACTS[key]
    viol, evals, outside, distinct = [], 0, 0, 0
    seen = set()
    for args in domain:
        pre = copy.deepcopy(args)
        env0 = native.Env({}, dict(args), pre)
        env0.g.update(SPEC_UFUNCS)
        try:
            ok = all(env0.holds(r) for r in c.requires)
        except Exception:
            ok = False
        if not ok:
            outside += 1
            continue
        evals += 1
        try:
            result = fn(**args)
        except Exception as e:
            allowed = set(getattr(c, "raises_may", {}) or {}) | set(getattr(c, "raises", {}) or {})
            k = f"{prop}/{key}/raises-only"
            if type(e).__name__ not in allowed and k not in seen:
                seen.add(k)
                viol.append({"key": k, "clause": "inside its precondition the function raises only what its contract lists", "detail": {"error": f"{type(e).__name__}: {e}"}, "input": pre})
            continue
        env = native.Env({}, dict(args), pre, result)
        env.g.update(SPEC_UFUNCS)
        env.extra = SPEC_UFUNCS
        for cl in c.ensures:
            lab = (c.labels or {}).get(cl, cl[:40])
            try:
                good = env.holds(cl)
            except Exception as e:
                good = False
            if good:
                distinct += 1
            else:
                k = f"{prop}/{key}/post[{lab}]"
                if k not in seen:
                    seen.add(k)
                    viol.append({"key": k, "clause": cl, "detail": {"result": repr(result)[:200]}, "input": pre})
    return {"evaluations": evals, "violations": viol, "outside_pre": outside, "distinct": list(range(min(distinct, evals))), "samples": []}


def work(task):
    import contracts  # noqa: F401  (registers the contracts)
    if task["fn"] == "token._push_pop_atom_branch":
        from gbigsmiles.token import _push_pop_atom_branch
        return check_function("token._push_pop_atom_branch", push_pop_domain(task["tier"]), task["prop"], _push_pop_atom_branch)
    if task["fn"].startswith("distribution."):
        import gbigsmiles.distribution as D
        obj = D
        for part in task["fn"].split(".")[1:]:
            obj = getattr(obj, part)
        return check_function(task["fn"], law_domain(task["fn"], task["tier"]), task["prop"], obj)
    raise KeyError(task["fn"])


LAW_FUNCTIONS = ["distribution.FlorySchulz.flory_schulz_gen._pmf", "distribution.SchulzZimm.schulz_zimm_gen._pmf", "distribution.LogNormal.log_normal_gen._pdf"]


def law_tasks(prop, tier):
    return [{"fn": k, "tier": tier, "prop": prop} for k in LAW_FUNCTIONS]
