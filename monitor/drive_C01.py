"""Bounded layer for C01: the round-trip postcondition of every parsing constructor, on the real code.

post(o = parse(text)):  s = str(o) is accepted again, prints to itself, denotes the same object (field by field: elements, tokens,
descriptors, weights, distributions, mixture masses) and gives the same molecule under one seed; o.generate_string(False) equals s with
every |...| segment erased, contains no '|', and for a single molecule is accepted and denotes the same tokens and descriptors.
"""
import re
import warnings

import numpy as np

from . import corpus, harness


def erase(s):
    return re.sub(r"\|[^|]*\|", "", s)


def desc_fields(b, weights=True):
    f = {"sym": b.descriptor, "id": b.descriptor_id, "order": int(b.bond_type), "atom": getattr(b, "atom_bonding_to", None)}
    if weights:
        f["weight"] = float(b.weight)
        f["transitions"] = None if b.transitions is None else [float(x) for x in b.transitions]
    return f


def token_fields(t, weights=True):
    return {"atoms": [a.generate_string(False) for a in t.atoms], "descriptors": [desc_fields(b, weights) for b in t.bond_descriptors],
            "fragment": t.generate_smiles_fragment()}


def dist_fields(d):
    if d is None:
        return None
    return {"family": type(d).__name__, "params": {k: float(v) for k, v in vars(d).items() if k.startswith("_") and isinstance(v, (int, float))}}


def element_fields(e, weights=True):
    from gbigsmiles.stochastic import Stochastic
    if isinstance(e, Stochastic):
        return {"kind": "stochastic", "left": desc_fields(e.left_terminal, weights), "right": desc_fields(e.right_terminal, weights),
                "repeat": [token_fields(t, weights) for t in e.repeat_tokens], "end": [token_fields(t, weights) for t in e.end_tokens],
                "distribution": dist_fields(e.distribution) if weights else None}
    return dict(token_fields(e, weights), kind="token")


def molecule_fields(m, weights=True):
    mix = None
    if m.mixture is not None and weights:
        mix = {"abs": m.mixture.absolute_mass, "rel": m.mixture.relative_mass}
    return {"elements": [element_fields(e, weights) for e in m._elements], "mixture": mix}


def object_fields(o, weights=True):
    from gbigsmiles import Molecule, System
    from gbigsmiles.bond import BondDescriptor
    from gbigsmiles.stochastic import Stochastic
    from gbigsmiles.token import SmilesToken
    if isinstance(o, System):
        return {"molecules": [molecule_fields(m, weights) for m in o._molecules]}
    if isinstance(o, Molecule):
        return molecule_fields(o, weights)
    if isinstance(o, (Stochastic, SmilesToken)):
        return element_fields(o, weights)
    if isinstance(o, BondDescriptor):
        return desc_fields(o, weights)
    raise TypeError(type(o))


def approx_equal(a, b):
    if isinstance(a, dict) and isinstance(b, dict):
        return a.keys() == b.keys() and all(approx_equal(a[k], b[k]) for k in a)
    if isinstance(a, list) and isinstance(b, list):
        return len(a) == len(b) and all(approx_equal(x, y) for x, y in zip(a, b))
    if isinstance(a, float) and isinstance(b, float):
        return a == b or abs(a - b) <= 1e-9 * max(abs(a), abs(b))
    return a == b


def first_diff(a, b, path=""):
    if isinstance(a, dict) and isinstance(b, dict):
        for k in a:
            if k not in b:
                return f"{path}.{k} missing"
            d = first_diff(a[k], b[k], f"{path}.{k}")
            if d:
                return d
        return None
    if isinstance(a, list) and isinstance(b, list):
        if len(a) != len(b):
            return f"{path}: length {len(a)} vs {len(b)}"
        for i, (x, y) in enumerate(zip(a, b)):
            d = first_diff(x, y, f"{path}[{i}]")
            if d:
                return d
        return None
    return None if approx_equal(a, b) else f"{path}: {a!r} vs {b!r}"


def parse(kind, text):
    from gbigsmiles import Molecule, System
    from gbigsmiles.bond import BondDescriptor
    from gbigsmiles.stochastic import Stochastic
    from gbigsmiles.token import SmilesToken
    with warnings.catch_warnings():
        warnings.simplefilter("ignore")
        if kind == "system":
            return System(text)
        if kind == "molecule":
            return Molecule(text)
        if kind == "stochastic":
            return Stochastic(text, 0)
        if kind == "token":
            return SmilesToken(text, 0, 0)
        if kind == "descriptor":
            return BondDescriptor(text, 0, "", 0)
    raise ValueError(kind)


def check_roundtrip(kind, text, viol, gen=True):
    """returns True if the text was accepted"""
    try:
        o = parse(kind, text)
    except Exception:
        return False
    K = f"C01/{kind}.__init__/post"
    inp = {"kind": kind, "text": text}
    s = str(o)
    s0 = o.generate_string(False)
    try:
        o2 = parse(kind, s)
    except Exception as e:
        viol.append({"key": K + "[reparse-accepted]", "clause": "the printed canonical string is accepted again",
                     "detail": {"printed": s, "error": f"{type(e).__name__}: {str(e)[:100]}"}, "input": inp})
        return True
    if str(o2) != s:
        viol.append({"key": K + "[fixed-point]", "clause": "the canonical string prints to itself", "detail": {"printed": s, "reprinted": str(o2)}, "input": inp})
    d = first_diff(object_fields(o), object_fields(o2))
    if d:
        viol.append({"key": K + "[same-object]", "clause": "the canonical string denotes the same object (elements, tokens, descriptors, weights, distributions, masses)",
                     "detail": {"printed": s, "difference": d}, "input": inp})
    if erase(s) != s0 or "|" in s0:
        viol.append({"key": K + "[erasure]", "clause": "printing without extensions gives the canonical string with every |...| segment erased",
                     "detail": {"printed": s, "without": s0, "erased": erase(s)}, "input": inp})
    if kind == "molecule" and o.mixture is None:
        try:
            o3 = parse("molecule", s0)
            d3 = first_diff(object_fields(o, weights=False), object_fields(o3, weights=False))
            if d3:
                viol.append({"key": K + "[plain-same-structure]", "clause": "the string without extensions denotes the same tokens and descriptors",
                             "detail": {"without": s0, "difference": d3}, "input": inp})
        except Exception as e:
            viol.append({"key": K + "[plain-accepted]", "clause": "for a single molecule the string without extensions is itself accepted",
                         "detail": {"without": s0, "error": f"{type(e).__name__}: {str(e)[:100]}"}, "input": inp})
    if gen and kind == "molecule":
        try:
            if o.generable:
                with warnings.catch_warnings():
                    warnings.simplefilter("ignore")
                    a = o.generate(rng=np.random.default_rng(7))
                    b = o2.generate(rng=np.random.default_rng(7))
                if a.smiles != b.smiles:
                    viol.append({"key": K + "[same-molecule]", "clause": "the same molecule under an identically seeded generator",
                                 "detail": {"first": a.smiles[:80], "second": b.smiles[:80]}, "input": inp})
        except Exception:
            pass
    return True


def leaf_texts(case):
    """descriptor / token / stochastic texts contained in a structured case"""
    out = []
    ast = case.get("ast")
    if not ast:
        return out
    for e in ast["elements"]:
        if isinstance(e, dict):
            for style in (0, 1, 3):
                out.append(("stochastic", corpus.stochastic_text(e, True, style, style)))
            for t in e["repeat"] + e["end"]:
                out.append(("token", corpus.token_text(t)))
                for p in t:
                    if isinstance(p, dict):
                        out.append(("descriptor", corpus.bd_text(p, True, 0)))
                        out.append(("descriptor", corpus.bd_text(p, True, 2)))
    return out


def work(task):
    viol, samples, distinct = [], [], set()
    evals = 0
    for kind, text in task["items"]:
        acc = check_roundtrip(kind, text, viol, gen=task.get("gen", True))
        evals += 1
        if acc:
            distinct.add((kind, text))
            if len(samples) < 2:
                samples.append({"kind": kind, "text": text[:200]})
    seen, uniq = set(), []
    for v in viol:
        if v["key"] not in seen:
            seen.add(v["key"])
            uniq.append(v)
    return {"evaluations": evals, "distinct": [hash(x) for x in distinct], "violations": uniq, "samples": samples}


def items(tier, seed):
    out = []
    for c in corpus.all_cases(tier, seed):
        text = corpus.shrink_masses(c["text"])
        out.append((c["kind"], text))
        if c.get("ast"):
            for style, ws in ((1, 1), (2, 0), (3, 2)):
                out.append(("molecule", corpus.molecule_text(c["ast"], True, style, ws)))
            out += leaf_texts(c)
    extra = ["{[][$]C[$];[$][H][]}", "{[]CC([$])=NCC[$]; [H][$][]}|schulz_zimm(1000, 900)|", "[$]", "[<|3|]", "[>|0.5 2 0 0|]", "[$12|2.5|]",
             "CCO.|50%|CCCC.|50%|", "CCO.|.5%|CCCC.|99.5%|", "CCO.|1e3|", "C.|25.5|CC.|74.5|", "CC{[$][$]CC[$][$]}|uniform(10.7, 20.9)|C",
             "CC{[$][$]CC[$][$]}|gauss(5e1, 1e-1)|C", "{[];[$]C[]}"]
    for e in extra:
        kind = "system" if ".|" in e else ("descriptor" if e.startswith("[") and e.endswith("]") and "{" not in e and len(e) < 20 else "molecule")
        out.append((kind, e))
    seen, uniq = set(), []
    for it in out:
        if it not in seen:
            seen.add(it)
            uniq.append(it)
    return uniq


def run(tier="quick", seed=0):
    its = items(tier, seed)
    chunk = 12
    tasks = [{"items": its[i:i + chunk]} for i in range(0, len(its), chunk)]
    res = harness.run_tasks("monitor.drive_C01", "work", tasks, timeout=300 if tier == "quick" else 1200)
    out = harness.merge(res, rule="every accepted string among: archetype molecules printed from structured descriptions in 4 number formats x 3 whitespace "
                        "styles, their stochastic objects / tokens / descriptors as leaves, multi-component systems, and every string documented in "
                        "README, SI.md, tests (masses scaled down); each is parsed, printed, re-parsed, compared field by field and generated under one seed. "
                        "distinct = accepted (kind, text)")
    out["assumptions"] = ["bounded layer: only the enumerated strings"]
    return out
