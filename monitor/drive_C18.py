"""Bounded layer for C18: molecules generated from the stochastic atom graph (Schulz-Zimm molecules), on the real code:
whole residues, links along non-static edges with their bond order, tree of residues, one connected sanitisable molecule,
termination, equal seeds give equal molecules."""
import re
import warnings

import numpy as np
from rdkit import Chem

from . import corpus, harness
from .drive_C17 import expected


def to_sz(text):
    return re.sub(r"\|\s*(gauss|uniform|schulz_zimm|poisson|flory_schulz|log_normal)\s*\([^)]*\)\s*\|", "|schulz_zimm(150, 120)|", text)


def check(mol, text, seeds, viol):
    from gbigsmiles.graph_generate import AtomGraph
    inp = {"text": text}
    K = "C18/AtomGraph.generate/post"
    with warnings.catch_warnings():
        warnings.simplefilter("ignore")
        sag = mol.gen_stochastic_atom_graph()
    SG = sag.graph
    nodes, static, where = expected(mol)
    tok_of = {}
    tok_nodes = {}
    tid = 0
    for lst in where:
        for t, off, is_end in lst:
            n = Chem.MolFromSmiles(t.generate_smiles_fragment()).GetNumAtoms()
            for a in range(off, off + n):
                tok_of[a] = tid
            tok_nodes[tid] = set(range(off, off + n))
            tid += 1
    static_pairs = {(a, b): o for a, b, o in static}
    link_pairs = {}
    for u, v, d in SG.edges(data=True):
        if d["static_weight"] == 0:
            link_pairs.setdefault((u, v), set()).add(int(d["bond_type"]))
    evals = 0
    smiles_by_seed = {}
    for seed in seeds:
        for rep in range(2):
            ag = AtomGraph(sag, rng=np.random.default_rng(seed))
            with warnings.catch_warnings():
                warnings.simplefilter("ignore")
                ag.generate()
            evals += 1
            g = ag.graph
            det = {"seed": seed}
            try:
                m = ag.to_mol()
                smi = Chem.MolToSmiles(m)
                if len(Chem.GetMolFrags(m)) != 1:
                    viol.append({"key": K + "[connected]", "clause": "one connected molecule", "detail": dict(det, smiles=smi[:80]), "input": inp})
            except Exception as e:
                if harness.raised_in_checker(e):
                    raise
                smi = None
                viol.append({"key": K + "[sanitises]", "clause": "the generated molecule is sanitisable", "detail": dict(det, error=f"{type(e).__name__}: {str(e)[:80]}"), "input": inp})
            if rep == 0:
                smiles_by_seed[seed] = smi
            elif smiles_by_seed[seed] != smi:
                viol.append({"key": K + "[equal-seeds]", "clause": "equal seeds give equal molecules", "detail": det, "input": inp})
            if rep == 1:
                continue
            sn = {n: d["stochastic_node"] for n, d in g.nodes(data=True)}
            # residues: the generator completes a residue right after creating its first atom, so residues are runs of consecutive
            # node ids; each run must map one-to-one onto the atoms of one token
            ids = sorted(g.nodes())
            res_of = {}
            comps = {}
            k = 0
            bad = False
            while k < len(ids):
                t = tok_of.get(sn[ids[k]])
                size = len(tok_nodes.get(t, [0]))
                members = ids[k:k + size]
                got = sorted(sn[x] for x in members)
                if t is None or got != sorted(tok_nodes[t]):
                    viol.append({"key": K + "[whole-residues]", "clause": "every residue instance contains all atoms of its token, once",
                                 "detail": dict(det, residue_atoms=got, token_atoms=sorted(tok_nodes.get(t, []))), "input": inp})
                    bad = True
                    break
                for x in members:
                    res_of[x] = len(comps)
                comps[len(comps)] = members
                k += size
            if bad:
                continue
            links = []
            for a, b, d in g.edges(data=True):
                sa, sb = sn[a], sn[b]
                if res_of[a] == res_of[b]:
                    if (sa, sb) not in static_pairs:
                        viol.append({"key": K + "[no-extra-bond-in-residue]", "clause": "a residue has no bond its token does not have", "detail": dict(det, bond=(sa, sb)), "input": inp})
                    elif int(d["bond_type"]) != static_pairs[(sa, sb)]:
                        viol.append({"key": K + "[residue-bond-order]", "clause": "every residue contains the internal bonds of its token with their bond order",
                                     "detail": dict(det, bond=(sa, sb), got=int(d["bond_type"]), want=static_pairs[(sa, sb)]), "input": inp})
                else:
                    links.append((a, b, d))
            for r, members in comps.items():
                t = tok_of[sn[members[0]]]
                have = {(min(sn[a], sn[b]), max(sn[a], sn[b])) for a, b in g.subgraph(members).edges()}
                want = {(min(a, b), max(a, b)) for (a, b) in static_pairs if a in tok_nodes[t] and b in tok_nodes[t]}
                if have != want:
                    viol.append({"key": K + "[whole-residues]", "clause": "every residue instance contains all internal bonds of its token",
                                 "detail": dict(det, missing=sorted(want - have)[:3]), "input": inp})
                    break
            for a, b, d in links:
                sa, sb = sn[a], sn[b]
                orders = link_pairs.get((sa, sb), set()) | link_pairs.get((sb, sa), set())
                if int(d["bond_type"]) not in orders:
                    viol.append({"key": K + "[links-along-edges]", "clause": "every bond between residues corresponds to a non-static edge of the stochastic atom graph with the same bond order",
                                 "detail": dict(det, bond=(sa, sb), order=int(d["bond_type"]), graph_orders=sorted(orders)), "input": inp})
                    break
            if len(links) != len(comps) - 1 or len({frozenset((res_of[a], res_of[b])) for a, b, d in links}) != len(links):
                viol.append({"key": K + "[tree]", "clause": "the residues form a tree", "detail": dict(det, residues=len(comps), links=len(links)), "input": inp})
            # a descriptor (atom + stochastic link) is used at most once: no atom gets two links from the same descriptor atom beyond its descriptors
            deg = {}
            for a, b, d in links:
                deg[a] = deg.get(a, 0) + 1
                deg[b] = deg.get(b, 0) + 1
            ndesc = {}
            for lst in where:
                for t, off, is_end in lst:
                    for bd in t.bond_descriptors:
                        ndesc[off + bd.atom_bonding_to] = ndesc.get(off + bd.atom_bonding_to, 0) + 1
            for a, k in deg.items():
                if k > ndesc.get(sn[a], 0):
                    viol.append({"key": K + "[descriptor-used-once]", "clause": "an attachment atom forms at most one bond per descriptor it carries",
                                 "detail": dict(det, stochastic_node=sn[a], links=k, descriptors=ndesc.get(sn[a], 0)), "input": inp})
                    break
    return evals


def work(task):
    from gbigsmiles import Molecule
    from gbigsmiles.stochastic import Stochastic
    viol, distinct, samples = [], set(), []
    evals = 0
    for text in task["texts"]:
        t2 = to_sz(text)
        try:
            with warnings.catch_warnings():
                warnings.simplefilter("ignore")
                mol = Molecule(t2)
            if not mol.generable or not any(isinstance(e, Stochastic) for e in mol._elements):
                continue
        except Exception:
            continue
        try:
            evals += check(mol, t2, task["seeds"], viol)
        except RuntimeError as e:
            if harness.raised_in_checker(e):
                raise
            if "single source node" in str(e):
                continue            # the property is about graphs that have a start node
            viol.append({"key": "C18/AtomGraph.generate/safe[RuntimeError]", "clause": "generation from an atom graph with a start node succeeds", "detail": {"error": str(e)[:100]}, "input": {"text": t2}})
        except Exception as e:
            if harness.raised_in_checker(e):
                raise
            viol.append({"key": f"C18/AtomGraph.generate/safe[{type(e).__name__}]", "clause": "generation from an atom graph with a start node succeeds",
                         "detail": {"error": str(e)[:100]}, "input": {"text": t2}})
        distinct.add(t2)
        if len(samples) < 1:
            samples.append({"text": t2[:160], "seeds": task["seeds"]})
    seen, uniq = set(), []
    for v in viol:
        if v["key"] not in seen:
            seen.add(v["key"])
            uniq.append(v)
    return {"evaluations": evals, "distinct": [hash(x) for x in distinct], "violations": uniq, "samples": samples}


EXTRA = ["{[][<]CC[>];[<]CO,[>]N=O[]}|schulz_zimm(200, 150)|", "{[>][<]C=C[>][<]}|schulz_zimm(150, 120)|", "C{[>][<]C#C[>][<]}|schulz_zimm(150, 120)|F",
         "OC{[<][>]CC[<],[>|3|]C(N)[<];[>][H],[<]F[>]}|schulz_zimm(200,150)|N", "C{[>][<]CC(CO[>])O[>]; [<][H][<]}|schulz_zimm(200, 150)|{[>][<]CC[>][<]}|schulz_zimm(150, 120)|F",
         "{[][$]CC(c1ccccc1)[$];[$]CCO,[$]Br[]}|schulz_zimm(300, 250)|", "CC{[$][$]CC[$],[$]CC(CC[$])[$];[$]C(=O)O[$]}|schulz_zimm(200,150)|F"]


def run(tier="quick", seed=0):
    cases = [c for c in corpus.all_cases(tier, seed) if c["kind"] == "molecule"]
    texts = list(dict.fromkeys([c["text"] for c in cases] + EXTRA))
    seeds = [seed, seed + 1, seed + 2] if tier == "quick" else list(range(seed, seed + 12))
    tasks = [{"texts": texts[i:i + 3], "seeds": seeds} for i in range(0, len(texts), 3)]
    res = harness.run_tasks("monitor.drive_C18", "work", tasks, timeout=900 if tier == "quick" else 3000)
    out = harness.merge(res, rule="every generable molecule of the corpus with all distributions replaced by schulz_zimm(150, 120), plus multi-atom end groups, "
                        "double / triple bonds inside repeat units and branching units; seeded random streams, each seed run twice. distinct = molecules")
    out["assumptions"] = ["bounded layer: seeded streams on the enumerated molecules (choice sequences are not enumerated for the atom-graph generator)",
                          "RDKit is the oracle for sanitisation; residues are recognised through the stochastic_node attribute the generator itself records"]
    return out
