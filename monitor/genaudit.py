"""Run-time contract monitor of direct generation (C04-C08, C10, C13): wraps MolGen.__init__, MolGen.attach_other,
Distribution.draw_mw and observes the generator interface (rng.choice with the call site), on the real code.

audit(molecule, rng, draws) runs one generation and returns a trace plus the violations of the per-call contracts:
  attach_other post (C04/C05): exactly one new bond, between the atoms of the two consumed descriptors (second shifted by the
     atom count of the growing molecule), of their common bond order; the descriptors were compatible and open; afterwards both
     are gone and all others are kept (shifted); atoms and bonds of both parts are preserved; the residue graph stays a tree.
  MolGen.__init__ post (C05/C10): atoms of the fragment = atoms of the token; descriptors are copies, not the token's objects.
"""
import copy
import sys

import numpy as np
from rdkit import Chem
from rdkit.Chem import Descriptors as rdDescriptors

from .install import RecordingRng


def bd_info(bd):
    return {"sym": bd.descriptor, "id": bd.descriptor_id, "order": int(bd.bond_type), "atom": getattr(bd, "atom_bonding_to", None),
            "weight": float(bd.weight), "transitions": None if bd.transitions is None else [float(x) for x in bd.transitions],
            "node": getattr(bd, "node_idx", None), "text": bd.generate_string(True), "obj": id(bd)}


def compat(a, b):
    """the conjugation rule, from the property statement"""
    if a["sym"] == "" or b["sym"] == "" or a["id"] != b["id"] or a["order"] != b["order"]:
        return False
    return (a["sym"], b["sym"]) in (("$", "$"), ("<", ">"), (">", "<"))


def bonds_of(mol):
    return {(min(b.GetBeginAtomIdx(), b.GetEndAtomIdx()), max(b.GetBeginAtomIdx(), b.GetEndAtomIdx())): int(b.GetBondType()) for b in mol.GetBonds()}


def atoms_of(mol):
    return [(a.GetAtomicNum(), a.GetFormalCharge(), a.GetIsotope(), a.GetIsAromatic()) for a in mol.GetAtoms()]


class SiteRng(RecordingRng):
    """records, for every choice, the library function that asked for it and the objects it was asked about"""

    def choice(self, a, size=None, replace=True, p=None, axis=0, shuffle=True):
        r = super().choice(a, size=size, replace=replace, p=p, axis=axis, shuffle=shuffle)
        if size is None:
            site, loc = None, {}
            f = sys._getframe(1)
            ccw = None
            while f is not None:
                fn = f.f_code.co_filename
                if "gbigsmiles" in fn:
                    name = f.f_code.co_name
                    if name == "choose_compatible_weight":
                        lst, bnd = f.f_locals.get("bond_descriptors"), f.f_locals.get("bond")
                        # snapshot now: the list is mutated by the attachment that follows
                        ccw = {"bond_descriptors": lst, "bond": bnd, "infos": [bd_info(b) for b in lst],
                               "bond_info": None if bnd is None else bd_info(bnd)}
                    elif site is None:
                        site = name
                        loc = {k: f.f_locals.get(k) for k in ("self", "my_mol", "starting_bond", "prefix", "invert_terminal", "terminal_bond")}
                        if "self" not in f.f_locals and "self" in (f.f_code.co_freevars or ()):
                            pass
                        break
                f = f.f_back
            # closures keep `self` as a free variable: find it through the frames above
            g = sys._getframe(1)
            while g is not None and loc.get("self") is None:
                if "gbigsmiles" in g.f_code.co_filename and "self" in g.f_locals:
                    loc["self"] = g.f_locals["self"]
                g = g.f_back
            self.log[-1]["site"] = site
            self.log[-1]["ccw"] = ccw
            self.log[-1]["locals"] = loc
            self.log[-1]["n_attach"] = len(getattr(self, "trace", {}).get("attach", []))
        return r


TOKENS = {}     # id(token) -> token object of the parsed notation (never copied)


class TokRef:
    """reference to a notation token that survives copy.deepcopy of the MolGen carrying it"""

    def __init__(self, token):
        self.tid = id(token)
        TOKENS[self.tid] = token

    def __deepcopy__(self, memo):
        return self

    @property
    def tok(self):
        return TOKENS[self.tid]


class Audit:
    def __init__(self):
        self.trace = {"new": [], "attach": [], "draws": [], "stoch": []}
        self.violations = []
        self.evaluations = 0
        self._orig = []

    def v(self, key, clause, detail):
        if len(self.violations) < 40:
            self.violations.append({"key": key, "clause": clause, "detail": detail})

    def install(self, draws=None):
        import gbigsmiles.mol_gen as mg
        import gbigsmiles.distribution as dist
        import gbigsmiles.stochastic as st
        aud = self
        MolGen = mg.MolGen
        o_init, o_attach = MolGen.__init__, MolGen.attach_other

        def init(self, token):
            o_init(self, token)
            aud.evaluations += 1
            frag = Chem.MolFromSmiles(token.generate_smiles_fragment())
            n = self._mol.GetNumAtoms()
            self._verif_res = [{"token": TokRef(token), "start": 0, "n": n}]
            heavy_written = sum(1 for a in token.atoms if a.generate_string(False).strip("[]").rstrip("+-0123456789") not in ("H", "2H", "3H"))
            heavy = sum(1 for a in self._mol.GetAtoms() if a.GetAtomicNum() > 1)
            if heavy != heavy_written:
                aud.v("C05/MolGen.__init__/post[atoms-of-token]", "fragment has one heavy atom per heavy atom written in the token",
                      {"token": str(token), "fragment_heavy_atoms": heavy, "written": heavy_written})
            tids = {id(b) for b in token.bond_descriptors}
            if any(id(b) in tids for b in self.bond_descriptors):
                aud.v("C10/MolGen.__init__/post[descriptors-copied]", "open descriptors of a fragment are copies, never the parsed objects",
                      {"token": str(token)})
            if [bd_info(b)["text"] for b in self.bond_descriptors] != [bd_info(b)["text"] for b in token.bond_descriptors]:
                aud.v("C05/MolGen.__init__/post[descriptors-of-token]", "fragment carries exactly the token's descriptors", {"token": str(token)})
            # the proved clause `copies-carry-the-written-symbol-id-order-weight-and-atom`, on the real objects
            if [(bd_info(b)["atom"], bd_info(b)["order"], float(b.weight)) for b in self.bond_descriptors] != \
                    [(bd_info(b)["atom"], bd_info(b)["order"], float(b.weight)) for b in token.bond_descriptors]:
                aud.v("C04/MolGen.__init__/post[descriptor-atoms-of-token]", "the open descriptors of a new fragment sit on the atoms (and carry the bond order and weight) "
                      "of the token's written descriptors", {"token": str(token), "got": [bd_info(b)["atom"] for b in self.bond_descriptors],
                                                              "written": [bd_info(b)["atom"] for b in token.bond_descriptors]})
            for b in self.bond_descriptors:
                if not (0 <= b.atom_bonding_to < n):
                    aud.v("C04/MolGen.__init__/post[atom-in-range]", "descriptor atom index within the fragment", {"token": str(token)})
            aud.trace["new"].append({"token": str(token), "natoms": n, "mol": id(self)})
            w = self.weight   # accessors are read on unfinished molecules too (they must never be stale later)
            if abs(w - rdDescriptors.HeavyAtomMolWt(self._mol)) > 1e-9:
                aud.v("C05/MolGen.weight/post[current]", "weight is the heavy-atom mass of the molecule as it is now", {"token": str(token)})

        def attach(self, self_bond_idx, other, other_bond_idx):
            pre_self = [bd_info(b) for b in self.bond_descriptors]
            pre_other = [bd_info(b) for b in other.bond_descriptors]
            n1, n2 = self._mol.GetNumAtoms(), other._mol.GetNumAtoms()
            b1, b2 = bonds_of(self._mol), bonds_of(other._mol)
            a1, a2 = atoms_of(self._mol), atoms_of(other._mol)
            g1, g2 = len(self.graph), len(other.graph)
            e1, e2 = self.graph.number_of_edges(), other.graph.number_of_edges()
            res1 = list(getattr(self, "_verif_res", []))
            res2 = list(getattr(other, "_verif_res", []))
            m1 = rdDescriptors.HeavyAtomMolWt(self._mol)
            m2 = rdDescriptors.HeavyAtomMolWt(other._mol)
            try:
                r = o_attach(self, self_bond_idx, other, other_bond_idx)
            except RuntimeError:
                aud.trace["attach"].append({"refused": True})
                raise
            aud.evaluations += 1
            K = "MolGen.attach_other/post"
            ok_idx = 0 <= self_bond_idx < len(pre_self) and 0 <= other_bond_idx < len(pre_other)
            if not ok_idx:
                aud.v(f"C04/{K}[indices]", "both indices name an open descriptor", {"i": int(self_bond_idx), "j": int(other_bond_idx)})
                return r
            d1, d2 = pre_self[self_bond_idx], pre_other[other_bond_idx]
            det = {"d1": d1["text"], "d2": d2["text"], "atoms": (d1["atom"], d2["atom"]), "n1": n1}
            if not compat(d1, d2):
                aud.v(f"C04/{K}[compatible]", "the two consumed descriptors are mutually compatible", det)
            nb = bonds_of(r._mol)
            expect = dict(b1)
            for (x, y), t in b2.items():
                expect[(x + n1, y + n1)] = t
            new = {k: t for k, t in nb.items() if k not in expect}
            lost = [k for k in expect if k not in nb or nb[k] != expect[k]]
            want = (min(d1["atom"], d2["atom"] + n1), max(d1["atom"], d2["atom"] + n1))
            if lost or len(new) != 1:
                aud.v(f"C05/{K}[one-new-bond]", "all bonds of both parts are kept and exactly one bond is added", dict(det, new=list(new), lost=lost))
            elif list(new)[0] != want:
                aud.v(f"C04/{K}[bond-atoms]", "the new bond joins the atoms of the two consumed descriptors (second shifted)", dict(det, new=list(new), want=want))
            elif list(new.values())[0] != d1["order"] or d1["order"] != d2["order"]:
                aud.v(f"C04/{K}[bond-order]", "the new bond has the bond order both descriptors prescribe", dict(det, got=list(new.values())[0]))
            if atoms_of(r._mol) != a1 + a2:
                aud.v(f"C05/{K}[atoms-preserved]", "atoms of the result are the atoms of both parts, in order, unmodified", det)
            post = [bd_info(b) for b in r.bond_descriptors]
            exp_desc = [d for k, d in enumerate(pre_self) if k != self_bond_idx] + \
                       [dict(d, atom=d["atom"] + n1, node=d["node"] + g1) for k, d in enumerate(pre_other) if k != other_bond_idx]
            strip = lambda d: {k: v for k, v in d.items() if k != "obj"}
            if [strip(d) for d in post] != [strip(d) for d in exp_desc]:
                aud.v(f"C04/{K}[descriptors-consumed]", "both used descriptors are removed, every other one is kept with its atom shifted",
                      dict(det, got=[d["text"] + "@" + str(d["atom"]) for d in post], want=[d["text"] + "@" + str(d["atom"]) for d in exp_desc]))
            oid = {d["obj"] for d in pre_other}
            if any(d["obj"] in oid for d in post):
                aud.v(f"C10/{K}[other-copied]", "descriptors of the attached fragment are copied, the fragment's own list is untouched", det)
            if len(r.graph) != g1 + g2 or r.graph.number_of_edges() != e1 + e2 + 1:
                aud.v(f"C05/{K}[residue-tree]", "residue graph: disjoint union plus exactly one edge", dict(det, nodes=len(r.graph), edges=r.graph.number_of_edges()))
            m = rdDescriptors.HeavyAtomMolWt(r._mol)
            if abs(m - (m1 + m2)) > 1e-6:
                aud.v(f"C05/{K}[mass-additive]", "heavy-atom mass of the result is the sum of the parts", dict(det, got=m, want=m1 + m2))
            if abs(r.weight - m) > 1e-9 or r.fully_generated != (len(r.bond_descriptors) == 0):
                aud.v("C05/MolGen.weight/post[current]", "weight / fully_generated describe the molecule as it is now", dict(det, weight=r.weight, mass=m))
            r._verif_res = res1 + [dict(x, start=x["start"] + n1) for x in res2]
            aud.trace["attach"].append({"d1": d1, "d2": d2, "n1": n1, "n2": n2, "mass_after": m, "open_after": len(post),
                                        "other_token": res2[0]["token"].tok if res2 else None, "mol": id(r)})
            return r
        MolGen.__init__, MolGen.attach_other = init, attach
        self._orig.append((MolGen, "__init__", o_init))
        self._orig.append((MolGen, "attach_other", o_attach))

        # every draw_mw (base class and overrides): record, and follow the scripted targets when the rng carries them
        for cname in ("Distribution", "FlorySchulz", "SchulzZimm", "Gauss", "Uniform", "LogNormal", "Poisson"):
            klass = getattr(dist, cname)
            if "draw_mw" not in klass.__dict__:
                continue
            o_draw = klass.__dict__["draw_mw"]

            def mk(o_draw):
                def draw(self, rng=None):
                    aud.evaluations += 1
                    scripted = getattr(rng, "draws", None)
                    if scripted is not None:
                        val = scripted[rng.draw_pos] if rng.draw_pos < len(scripted) else scripted[-1]
                        rng.draw_pos += 1
                    else:
                        val = o_draw(self, rng)
                    aud.trace["draws"].append({"dist": str(self), "value": float(val), "rng_given": rng is not None,
                                               "n_attach": len(aud.trace["attach"]), "dist_obj": id(self)})
                    return val
                return draw
            setattr(klass, "draw_mw", mk(o_draw))
            self._orig.append((klass, "draw_mw", o_draw))

        o_gen = st.Stochastic.generate

        def sgen(self, prefix=None, rng=None, **kw):
            start_mass = None if prefix is None else rdDescriptors.HeavyAtomMolWt(prefix._mol)
            rec = {"obj": self, "text": str(self), "n_attach0": len(aud.trace["attach"]), "n_draws0": len(aud.trace["draws"]),
                   "prefix_mass": start_mass, "prefix_open": None if prefix is None else [bd_info(b) for b in prefix.bond_descriptors]}
            aud.trace["stoch"].append(rec)
            try:
                r = o_gen(self, prefix, rng) if rng is not None else o_gen(self, prefix)
            except Exception as e:
                rec["raised"] = type(e).__name__
                raise
            rec["n_attach1"] = len(aud.trace["attach"])
            rec["n_draws1"] = len(aud.trace["draws"])
            rec["open_end"] = [bd_info(b) for b in r.bond_descriptors]
            rec["mass_end"] = rdDescriptors.HeavyAtomMolWt(r._mol)
            return r
        st.Stochastic.generate = sgen
        self._orig.append((st.Stochastic, "generate", o_gen))
        return self

    def uninstall(self):
        for holder, name, raw in reversed(self._orig):
            setattr(holder, name, raw)
        self._orig = []


def residue_report(molgen):
    """C05 on a finished MolGen: residues partition the atoms; each range equals its token's fragment; one tree"""
    out = []
    res = getattr(molgen, "_verif_res", None)
    mol = molgen._mol
    if res is None:
        return [("C05/result/post[residues-known]", "every atom belongs to a residue created from a token", {})]
    n = mol.GetNumAtoms()
    pos = 0
    owner = {}
    for k, r in enumerate(res):
        if r["start"] != pos:
            out.append(("C05/result/post[partition]", "residue ranges are consecutive and cover all atoms", {"residue": k}))
        for a in range(r["start"], r["start"] + r["n"]):
            owner[a] = k
        pos = r["start"] + r["n"]
    if pos != n:
        out.append(("C05/result/post[partition]", "residue ranges are consecutive and cover all atoms", {"atoms": n, "covered": pos}))
    inter = {}
    for b in mol.GetBonds():
        i, j = b.GetBeginAtomIdx(), b.GetEndAtomIdx()
        if owner.get(i) != owner.get(j):
            key = (min(owner.get(i, -1), owner.get(j, -1)), max(owner.get(i, -1), owner.get(j, -1)))
            inter[key] = inter.get(key, 0) + 1
    if any(c > 1 for c in inter.values()):
        out.append(("C05/result/post[one-bond-per-pair]", "at most one bond between two residues", {"pairs": [k for k, c in inter.items() if c > 1]}))
    if len(inter) != len(res) - 1:
        out.append(("C05/result/post[tree]", "residues form a tree: number of inter-residue bonds = residues - 1", {"residues": len(res), "links": len(inter)}))
    else:
        # connectivity
        adj = {}
        for a, b in inter:
            adj.setdefault(a, []).append(b)
            adj.setdefault(b, []).append(a)
        seen, stack = {0}, [0]
        while stack:
            x = stack.pop()
            for y in adj.get(x, []):
                if y not in seen:
                    seen.add(y)
                    stack.append(y)
        if len(seen) != len(res):
            out.append(("C05/result/post[tree]", "residues form one connected piece", {"reached": len(seen), "residues": len(res)}))
    # each residue identical to its token's fragment
    for k, r in enumerate(res):
        tok = r["token"].tok
        frag = Chem.MolFromSmiles(tok.generate_smiles_fragment())
        if frag is None:
            out.append(("C05/result/post[fragment-parses]", "token fragment is valid SMILES", {"token": str(tok)}))
            continue
        fa = atoms_of(frag)
        ga = atoms_of(mol)[r["start"]:r["start"] + r["n"]]
        if fa != ga:
            out.append(("C05/result/post[residue-atoms]", "residue atoms equal the token's atoms (element, charge, isotope, aromaticity)",
                        {"token": str(tok), "want": fa, "got": ga}))
        # independent of generate_smiles_fragment (the function under test): the token's own atom list, one written atom after the other
        try:
            written = []
            for a_ in tok.atoms:
                am = Chem.MolFromSmiles(a_.generate_string(False))
                written.append(am.GetAtomWithIdx(0).GetSymbol() if am is not None and am.GetNumAtoms() >= 1 else "?")
            got_syms = [mol.GetAtomWithIdx(i).GetSymbol() for i in range(r["start"], r["start"] + r["n"])]
            if "?" not in written and [x for x in written if x != "H"] != [x for x in got_syms if x != "H"]:
                out.append(("C05/result/post[residue-atoms]", "residue atoms are the atoms written in the token, in order (independent of the fragment text)",
                            {"token": str(tok), "written": written, "got": got_syms}))
        except Exception:
            pass
        fb = bonds_of(frag)
        gb = {(i - r["start"], j - r["start"]): t for (i, j), t in bonds_of(mol).items()
              if r["start"] <= i < r["start"] + r["n"] and r["start"] <= j < r["start"] + r["n"]}
        if fb != gb:
            out.append(("C05/result/post[residue-bonds]", "residue internal bonds equal the token's internal bonds", {"token": str(tok)}))
    return out


def chemistry_report(molgen):
    out = []
    try:
        m = molgen.mol
    except Exception as e:
        return [("C05/result/post[sanitises]", "the molecule passes chemical sanitisation", {"error": f"{type(e).__name__}: {str(e)[:100]}"})]
    dotted = any("." in r["token"].tok.generate_smiles_fragment() for r in getattr(molgen, "_verif_res", []))
    if len(Chem.GetMolFrags(m)) != 1 and not dotted:
        out.append(("C05/result/post[connected]", "one connected piece", {"fragments": len(Chem.GetMolFrags(m))}))
    res = getattr(molgen, "_verif_res", [])
    total = 0.0
    for r in res:
        frag = Chem.MolFromSmiles(r["token"].tok.generate_smiles_fragment())
        if frag is not None:
            total += rdDescriptors.HeavyAtomMolWt(frag)
    if res and abs(molgen.weight - total) > 1e-6 * max(1.0, total):
        out.append(("C05/result/post[mass-sum]", "heavy-atom mass equals the sum of the residue masses", {"weight": molgen.weight, "sum": total}))
    # hydrogens: organic-subset atoms written without brackets get their normal valence
    pt = Chem.GetPeriodicTable()
    for a in m.GetAtoms():
        if a.GetSymbol() in ("B", "C", "N", "O", "P", "S", "F", "Cl", "Br", "I") and a.GetFormalCharge() == 0 and not a.GetIsAromatic() \
                and a.GetNumRadicalElectrons() == 0 and not a.GetNoImplicit():
            v = a.GetTotalValence()
            if v not in list(pt.GetValenceList(a.GetAtomicNum())):
                out.append(("C05/result/post[hydrogens]", "unbracketed atoms carry their normal hydrogen count", {"atom": a.GetIdx(), "valence": v}))
                break
    return out
