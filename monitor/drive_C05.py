"""Bounded layer for C05: clauses of C05 evaluated on audited generations of the real code (see monitor/gendrive.py)."""
from . import gendrive


def run(tier="quick", seed=0):
    return gendrive.run_for(["C05"], tier, seed)
