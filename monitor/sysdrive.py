"""Bounded layer for C13 / C14: iteration of small systems with distinguishable components, observed at the generator
interface (the library's default generator of System.generator is replaced in-process by a recording / scripted one)."""
import itertools
import warnings

import numpy as np
from rdkit import Chem
from rdkit.Chem import Descriptors as rdDescriptors

from . import harness
from .drive_C12 import solve
from .genaudit import Audit
from .install import RecordingRng, enumerate_scripts


def mass(smi):
    return rdDescriptors.HeavyAtomMolWt(Chem.MolFromSmiles(smi))


FIXED = ["C", "CC", "CCO", "CCCCCCCCCC", "c1ccccc1", "IC(I)(I)I"]
POLY = ["N{[>][<]CC[>][<]}|uniform(20, 60)|F", "O{[>][<]CC(C)[>][<]}|gauss(50, 10)|Br"]


def with_rng(system, rng):
    """System.generator is a property with the library generator as a default argument: swap the default"""
    from gbigsmiles.system import System
    fget = System.generator.fget
    old = fget.__defaults__
    fget.__defaults__ = (rng,)
    return fget, old


def component_of(molgen, system):
    """index of the component all residues of the molecule come from, or None"""
    from gbigsmiles.stochastic import Stochastic
    vr = getattr(molgen, "_verif_res", None)
    if not vr:
        return None
    owners = set()
    for r in vr:
        tok = r["token"].tok
        found = None
        for i, m in enumerate(system._molecules):
            for e in m._elements:
                toks = (e.repeat_tokens + e.end_tokens) if isinstance(e, Stochastic) else [e]
                if any(t is tok for t in toks):
                    found = i
        owners.add(found)
    return owners.pop() if len(owners) == 1 else None


def declared_fractions(spec, W):
    kinds = ["abs" if (v is not None and not str(v).endswith("%")) else ("pct" if v is not None else "none") for _, v in spec]
    vals = [None if v is None else float(str(v).rstrip("%")) for _, v in spec]
    r = solve(tuple(kinds), vals, W)
    if r[0] != "determined":
        return None, None
    return r[1], [c[1] / 100.0 for c in r[2]]


def system_text(spec):
    t = ""
    for i, (smi, v) in enumerate(spec):
        t += smi + (f".|{v}|" if v is not None else "")
    return t


def iterate(system, rng, limit=400):
    aud = Audit().install()
    fget, old = with_rng(system, rng)
    out, err = [], None
    try:
        with warnings.catch_warnings():
            warnings.simplefilter("ignore")
            for k, mg in enumerate(system.generator):
                out.append(mg)
                if k >= limit:
                    err = "limit"
                    break
    except Exception as e:
        err = e
    finally:
        fget.__defaults__ = old
        aud.uninstall()
    return out, err, aud


def check_system(spec, W, viol, scripts=True, evals=None):
    from gbigsmiles import System
    text = system_text(spec)
    inp = {"text": text, "system_mass": W}
    with warnings.catch_warnings():
        warnings.simplefilter("ignore")
        sysm = System(text, W) if W is not None else System(text)
    Wexp, fr = declared_fractions(spec, W)
    n_eval = 0
    distinct = set()
    if not sysm.generable:
        # a system that is not generable refuses to generate
        rng = RecordingRng(seed=1)
        out, err, aud = iterate(sysm, rng, limit=5)
        n_eval += 1
        if not isinstance(err, Exception):
            viol.append({"key": "C13/System.generator/must-raise[not-generable]", "clause": "a system that is not generable refuses to generate",
                         "detail": {"yielded": len(out)}, "input": inp})
        try:
            with warnings.catch_warnings():
                warnings.simplefilter("ignore")
                sysm.generate(rng=np.random.default_rng(2))
            viol.append({"key": "C13/System.generate/must-raise[not-generable]", "clause": "a system that is not generable refuses to generate", "detail": {}, "input": inp})
        except Exception:
            pass
        return n_eval, distinct
    target = sysm.system_mass
    masses = [mass(s) if "{" not in s else None for s, _ in spec]

    def run(script):
        rng = RecordingRng(seed=3, script=script)
        out, err, aud = iterate(sysm, rng)
        picks = [d for d in rng.log if d.get("options") is not None and len(d["cand"]) == len(spec) and d["cand"] == list(range(len(spec)))]
        return rng, out, err, aud, picks

    def audit(script):
        nonlocal n_eval
        rng, out, err, aud, picks = run(script)
        n_eval += 1
        K = "C13/System.generator"
        if isinstance(err, Exception):
            if harness.raised_in_checker(err):
                raise err
            viol.append({"key": f"{K}/safe[{type(err).__name__}]", "clause": "iterating a generable system yields molecules", "detail": {"error": str(err)[:100]}, "input": inp})
            return [{"options": d["options"], "k": d["k"]} for d in rng.log], None
        tot = 0.0
        comps = []
        for k, mg in enumerate(out):
            if not mg.fully_generated:
                viol.append({"key": f"{K}/yield[fully-generated]", "clause": "only fully generated molecules are yielded", "detail": {"index": k}, "input": inp})
            c = component_of(mg, sysm)
            comps.append(c)
            if c is None:
                viol.append({"key": f"{K}/yield[member]", "clause": "each yielded molecule is an instance of one of the declared components", "detail": {"index": k, "smiles": mg.smiles[:60]}, "input": inp})
            if tot >= target:
                viol.append({"key": f"{K}/post[stops-at-first-reaching]", "clause": "iteration stops exactly at the first molecule that brings the accumulated mass to the system mass or beyond",
                             "detail": {"index": k, "accumulated_before": tot, "system_mass": target}, "input": inp})
                break
            tot += rdDescriptors.HeavyAtomMolWt(mg._mol)
        if err != "limit" and tot < target:
            viol.append({"key": f"{K}/post[reaches-system-mass]", "clause": "iteration continues until the accumulated mass reaches the system mass",
                         "detail": {"accumulated": tot, "system_mass": target, "molecules": len(out)}, "input": inp})
        # one fresh component pick per molecule, with the supplied generator  (C13 / C14)
        if len(picks) != len(out):
            viol.append({"key": "C14/System.generator/post[one-pick-per-molecule]", "clause": "every molecule's component is drawn afresh from the selection law",
                         "detail": {"picks": len(picks), "molecules": len(out)}, "input": inp})
        for k, d in enumerate(picks[:len(out)]):
            if comps[k] is not None and k < len(comps) and d["picked"] != comps[k]:
                viol.append({"key": f"{K}/yield[picked-component]", "clause": "the yielded molecule is an instance of the component that was picked", "detail": {"index": k}, "input": inp})
                break
        if picks and fr is not None:
            p = picks[0]["p"]
            check_law(p, fr, masses, viol, inp, "System.generator")
        distinct.add((text, tuple(comps)))
        return [{"options": d["options"], "k": d["k"]} for d in rng.log], tuple(comps)
    if scripts and all(m is not None for m in masses):
        enumerate_scripts(lambda s: audit(s), max_paths=25, max_depth=6)
    else:
        audit(None)
    # several iterations of ONE system object alive at the same time (consumed alternately, and one nested inside another): the accumulated mass belongs
    # to the iteration, so each of them separately yields up to the system mass
    def own_total(mols):
        tot, before_last = 0.0, 0.0
        for mg in mols:
            before_last = tot
            tot += rdDescriptors.HeavyAtomMolWt(mg._mol)
        return tot, before_last
    fget, olddef = with_rng(sysm, np.random.default_rng(17))
    try:
        with warnings.catch_warnings():
            warnings.simplefilter("ignore")
            a, b = [], []
            ita, itb = sysm.generator, sysm.generator
            live = [(ita, a), (itb, b)]
            while live and len(a) + len(b) < 800:
                for it, acc in list(live):
                    try:
                        acc.append(next(it))
                    except StopIteration:
                        live.remove((it, acc))
            outer, inner_runs = [], []
            for k, mg in enumerate(sysm.generator):
                outer.append(mg)
                if k < 2:
                    inner_runs.append(list(itertools.islice(sysm.generator, 400)))
                if k > 400:
                    break
        n_eval += 1
        for name, mols in [("alternating-1", a), ("alternating-2", b), ("outer", outer)] + [(f"nested-{i}", r) for i, r in enumerate(inner_runs)]:
            tot, before = own_total(mols)
            if tot < target or (mols and before >= target):
                viol.append({"key": "C13/System.generator/post[each-live-iteration-has-its-own-accumulated-mass]",
                             "clause": "iteration stops exactly at the first molecule that brings ITS accumulated mass to the system mass or beyond, also while other iterations of the same system are alive",
                             "detail": {"iteration": name, "accumulated": tot, "before_last": before, "system_mass": target, "molecules": len(mols)}, "input": inp})
                break
    except Exception as e:
        if harness.raised_in_checker(e):
            raise
        viol.append({"key": f"C13/System.generator/safe[{type(e).__name__}]", "clause": "iterating a generable system yields molecules", "detail": {"error": str(e)[:100], "mode": "several live iterations"}, "input": inp})
    finally:
        fget.__defaults__ = olddef
    # single-molecule generation
    rng = RecordingRng(seed=11)
    aud = Audit().install()
    try:
        with warnings.catch_warnings():
            warnings.simplefilter("ignore")
            mg = sysm.generate(rng=rng)
        n_eval += 1
        if not mg.fully_generated or component_of(mg, sysm) is None:
            viol.append({"key": "C13/System.generate/post[member-fully-generated]", "clause": "single-molecule generation returns a fully generated instance of one declared component",
                         "detail": {}, "input": inp})
        picks = [d for d in rng.log if d["cand"] == list(range(len(spec)))]
        if picks and fr is not None:
            check_law(picks[0]["p"], fr, masses, viol, inp, "System.generate")
    except Exception as e:
        if harness.raised_in_checker(e):
            raise
        viol.append({"key": f"C13/System.generate/safe[{type(e).__name__}]", "clause": "single-molecule generation from a generable system succeeds", "detail": {"error": str(e)[:80]}, "input": inp})
    finally:
        aud.uninstall()
    return n_eval, distinct


def check_law(p, fr, masses, viol, inp, where):
    """C14: the mass share converges to f_i iff p_i * M_i is proportional to f_i (renewal-reward).  The recorded deviation of the
    unchanged code (p_i = f_i, the mass fraction used as a per-molecule probability) is reported under its own key."""
    s = sum(fr)
    naive = [f / s for f in fr]
    if any(m is None for m in masses):
        # expected molecule masses unknown: only the pinned form can be compared
        if max(abs(a - b) for a, b in zip(p, naive)) > 1e-9:
            viol.append({"key": f"C14/{where}/post[selection-law][neither]", "clause": "components are selected by the declared mass fractions",
                         "detail": {"p": p, "declared_mass_fractions": fr}, "input": inp})
        return
    w = [f / m for f, m in zip(fr, masses)]
    right = [x / sum(w) for x in w]
    if max(abs(a - b) for a, b in zip(p, right)) <= 1e-9:
        return
    share = [a * m for a, m in zip(p, masses)]
    share = [x / sum(share) for x in share]
    if max(abs(a - b) for a, b in zip(p, naive)) <= 1e-9:
        viol.append({"key": f"C14/{where}/post[selection-law][p-equals-mass-fraction]",
                     "clause": "each component's share of the generated mass converges to its declared mass fraction (p_i * M_i proportional to f_i)",
                     "detail": {"p": p, "declared_mass_fractions": fr, "molecule_masses": masses, "limit_mass_shares": share}, "input": inp})
    else:
        viol.append({"key": f"C14/{where}/post[selection-law][neither]",
                     "clause": "each component's share of the generated mass converges to its declared mass fraction (p_i * M_i proportional to f_i)",
                     "detail": {"p": p, "declared_mass_fractions": fr, "molecule_masses": masses, "limit_mass_shares": share}, "input": inp})


def specs(tier):
    out = []
    m = {s: mass(s) for s in FIXED}
    # exact boundaries: the accumulated mass can equal the system mass
    out.append(([("CC", repr(m["CC"]))], None))
    out.append(([("CC", repr(3 * m["CC"]))], None))
    out.append(([("C", "50%"), ("CC", repr(1.5 * m["CC"]))], None))
    out.append(([("CCO", "25%"), ("CC", "75%")], 4 * m["CC"]))
    # light and heavy molecules
    out.append(([("C", "90%"), ("CCCCCCCCCC", "10%")], 600.0))
    out.append(([("C", "20%"), ("CCCCCCCCCC", "30%"), ("IC(I)(I)I", repr(1500.0))], None))
    out.append(([("CC", "68%"), ("c1ccccc1", "30%"), ("IC(I)(I)I", "2%")], 3000.0))
    out.append(([("CCO", repr(300.0)), ("CC", repr(300.0)), ("C", repr(400.0))], None))
    out.append(([("CCO", "40%"), ("CC", None)], 500.0))
    out.append(([(POLY[0], "60%"), ("CCO", "40%")], 800.0))
    out.append(([(POLY[0], repr(500.0)), (POLY[1], repr(700.0))], None))
    # a component declared with 0 % in front of others (it must never be picked, and the others keep their shares)
    out.append(([("CCCCO", "0%"), ("CCOCC", "30%"), ("CC(C)CO", repr(700.0))], None))
    out.append(([("C", "0%"), ("CCCCCCCCCC", "40%"), ("CC", "60%")], 600.0))
    # absolute masses that do not add up to the caller's system mass but are accepted (C12 finding class): iteration is still bounded by system_mass
    out.append(([("CC", "50%"), ("CCO", repr(200.0)), ("CCN", repr(200.0))], 1000.0))
    out.append(([("CC", "50%"), ("CCO", repr(400.0)), ("CCN", repr(400.0))], 1000.0))
    # not generable
    out.append(([("CC", "50%"), ("CCC", None)], None))
    out.append(([("CC", "90%"), ("OC{[$][$]CC[$][$]}CN", repr(50.0))], None))
    out.append(([("CC", None)], None))
    if tier == "thorough":
        for a, b, c in itertools.permutations(FIXED[:4], 3):
            out.append(([(a, "20%"), (b, "30%"), (c, "50%")], 700.0))
        for a, b in itertools.permutations(FIXED, 2):
            out.append(([(a, "35%"), (b, repr(650.0))], None))
    return out


def work(task):
    viol, distinct, samples = [], set(), []
    evals = 0
    for spec, W in task["specs"]:
        n, d = check_system([tuple(x) for x in spec], W, viol)
        evals += n
        distinct |= d
        if len(samples) < 2:
            samples.append({"text": system_text(spec), "system_mass": W})
    props = task.get("props")
    if props:
        viol = [v for v in viol if any(v["key"].startswith(p + "/") for p in props)]
    seen, uniq = set(), []
    for v in viol:
        if v["key"] not in seen:
            seen.add(v["key"])
            uniq.append(v)
    import json
    uniq = json.loads(json.dumps(uniq, default=str))
    return {"evaluations": evals, "distinct": [hash(x) for x in distinct], "violations": uniq, "samples": samples}


def run_for(props, tier, seed):
    sp = specs(tier)
    tasks = [{"specs": [s], "props": props} for s in sp]
    res = harness.run_tasks("monitor.sysdrive", "work", tasks, timeout=300 if tier == "quick" else 1500)
    out = harness.merge(res, rule="systems of 1-3 components (fixed small molecules of masses 12-520, two polymers), small system masses incl. exact boundaries; "
                        "all component-pick sequences by scripted generator for fixed-mass systems (bounded), seeded streams otherwise; "
                        "distinct = (system, sequence of yielded components)")
    out["assumptions"] = ["bounded layer: only the enumerated systems and pick sequences",
                          "C14: 'converges' is decided from the selection probabilities at the generator interface and the exact molecule masses (renewal-reward limit), not from long runs"]
    return out
