"""Bounded layer for C20: force-field typing of generated molecules, on the real code:
totality (one parameter set per atom, hydrogens included, or the dedicated error with the partial assignment), element masses,
refusal of partially generated molecules, independence from atom numbering and from earlier typing calls, copies of the bundled
parameter files (and an edited copy: the result must follow the files that were named, never a previous call's)."""
import os
import random
import shutil
import tempfile
import warnings

import numpy as np
from rdkit import Chem

from . import harness

TYPABLE = [
    "CCC(C){[>][<]CC([>])c1ccccc1[<]}|schulz_zimm(300, 250)|{[>][<]CC([>])C(=O)OC[<]}|schulz_zimm(250, 200)|[H]",
    "C{[>][<]CC[>][<]}|uniform(30, 120)|[H]",
    "C{[>][<]CC(C)[>][<]}|gauss(100, 20)|C",
    "CO{[>][<]CCO[>][<]}|uniform(60, 200)|C",
    "[H]{[>][<]CC([>])C(=O)OC[<]}|gauss(200, 30)|[H]",
    "CC{[$][$]CC[$],[$]CC(C)[$][$]}|uniform(40, 160)|CC",
]
# chemistry beyond the polymers above: hetero-aromatic rings, halides, ions, sulfur, nitro, nitrile ... (partial assignments are acceptable here, wrong ones are not)
DIVERSE = ["CCn1ccnc1", "c1ccncc1", "CCS", "CCCl", "CCF", "CC#N", "CC(=O)NC", "CC(=O)O", "c1ccccc1O", "CCSCC", "C1CCOC1", "CC(=O)C", "CC=C", "CC#C", "c1ccsc1",
           "CS(=O)C", "Nc1ccccc1", "OCCO", "c1ccc2ccccc2c1", "CC[N+](=O)[O-]", "CCI", "[Li+]", "[Na+]", "[K+]", "CNC", "CN(C)C", "CC(N)C(=O)O", "CSSC", "c1ccoc1",
           "NC=O", "CC(=O)[O-]", "C[NH3+]", "CCn1ccnc1C", "CC{[>][<]CC([>])n1ccnc1[<]}|gauss(300, 10)|C"]
FIXED = ["CCO", "COCCOCCOCC(=O)OC", "CCCCCCCC", "CC(C)C(=O)OC", "c1ccccc1CC", "CC(=O)N", "CCN"]


def masses():
    pt = Chem.GetPeriodicTable()
    return pt


def typed(molgen, smarts=None, nb=None):
    from gbigsmiles.forcefield_helper import FfAssignmentError
    try:
        ff, mol = molgen.get_forcefield_types(smarts, nb)
        return ("ok", ff, mol)
    except FfAssignmentError as e:
        return ("partial", e.incomplete_ff_dict, e.mol)


def signature(ff, mol):
    """per-atom parameters in an order that does not depend on atom numbering: canonical ranks"""
    ranks = list(Chem.CanonicalRankAtoms(mol, breakTies=False))
    out = sorted((ranks[i], round(p.mass, 4), round(p.charge, 4), round(p.sigma, 6), round(p.epsilon, 6), p.bond_type_name) for i, p in ff.items())
    return out


def work(task):
    from gbigsmiles import Molecule
    from gbigsmiles.forcefield_helper import FfAssignmentError, get_assignment_class
    from gbigsmiles.mol_gen import MolGen
    from gbigsmiles.token import SmilesToken
    from importlib.resources import files
    viol, distinct, samples = [], set(), []
    evals = 0
    rng = random.Random(task["seed"])
    pt = Chem.GetPeriodicTable()
    tmp = tempfile.mkdtemp(prefix="verif_ff_")
    try:
        par = shutil.copy(files("gbigsmiles").joinpath("data", "opls.par"), os.path.join(tmp, "rules_copy.par"))
        itp = shutil.copy(files("gbigsmiles").joinpath("data", "ffnonbonded.itp"), os.path.join(tmp, "nb_copy.itp"))
        # an edited copy: every charge column set to 0
        itp0 = os.path.join(tmp, "nb_zero_charge.itp")
        with open(itp) as f, open(itp0, "w") as g:
            for line in f:
                cols = line.split()
                if line and line[0] not in "[;" and len(cols) >= 8 and cols[0].startswith("opls_"):
                    cols[4] = "0.000"
                    g.write(" " + "   ".join(cols) + "\n")
                else:
                    g.write(line)
        mols = []
        with warnings.catch_warnings():
            warnings.simplefilter("ignore")
            for text in task["texts"]:
                if "{" in text:
                    mg = Molecule(text).generate(rng=np.random.default_rng(task["seed"] + 3))
                else:
                    mg = Molecule(text).generate(rng=np.random.default_rng(1))
                mols.append((text, mg))
        K = "C20/MolGen.get_forcefield_types/post"
        base = {}
        for text, mg in mols:
            inp = {"text": text, "smiles": mg.smiles}
            st, ff, mol = typed(mg)
            evals += 1
            distinct.add(mg.smiles)
            if st == "partial":
                if not isinstance(ff, dict) or mol is None or len(ff) >= mol.GetNumAtoms():
                    viol.append({"key": K + "[error-carries-partial]", "clause": "the dedicated assignment error carries the partial assignment", "detail": {}, "input": inp})
                if task.get("typable"):
                    viol.append({"key": K + "[typable-chemistry-typed]", "clause": "a molecule built from typable chemistry is assigned completely",
                                 "detail": {"typed": len(ff), "atoms": mol.GetNumAtoms() if mol is not None else None}, "input": inp})
                continue
            if len(ff) != mol.GetNumAtoms() or sorted(ff) != list(range(mol.GetNumAtoms())):
                viol.append({"key": K + "[total]", "clause": "exactly one parameter set for every atom, hydrogens included", "detail": {"typed": len(ff), "atoms": mol.GetNumAtoms()}, "input": inp})
                continue
            if not any(a.GetAtomicNum() == 1 for a in mol.GetAtoms()) and any(a.GetTotalNumHs() for a in mol.GetAtoms()):
                viol.append({"key": K + "[hydrogens-included]", "clause": "hydrogens are typed as atoms", "detail": {}, "input": inp})
            for i, p in ff.items():
                em = pt.GetAtomicWeight(mol.GetAtomWithIdx(i).GetAtomicNum())
                if abs(p.mass - em) > 0.02:
                    viol.append({"key": K + "[element-mass]", "clause": "each parameter set has the mass of the atom's element",
                                 "detail": {"atom": i, "element": mol.GetAtomWithIdx(i).GetSymbol(), "mass": p.mass}, "input": inp})
                    break
            base[text] = signature(ff, mol)
            if len(samples) < 1:
                samples.append({"text": text, "atoms": mol.GetNumAtoms(), "types": sorted({p.bond_type_name for p in ff.values()})[:6]})
            # atom numbering: type renumbered copies through the public assigner
            assigner = get_assignment_class(None, None)
            for _ in range(task["renumber"]):
                order = list(range(mol.GetNumAtoms()))
                rng.shuffle(order)
                m2 = Chem.RenumberAtoms(mol, order)
                evals += 1
                try:
                    ff2 = assigner.get_type_assignments(m2)
                    if signature(ff2, m2) != base[text]:
                        viol.append({"key": K + "[numbering-free]", "clause": "the assignment does not depend on atom numbering", "detail": {"order": order[:12]}, "input": inp})
                        break
                except FfAssignmentError as e:
                    viol.append({"key": K + "[numbering-free]", "clause": "the assignment does not depend on atom numbering",
                                 "detail": {"order": order[:12], "typed": len(e.incomplete_ff_dict), "atoms": m2.GetNumAtoms()}, "input": inp})
                    break
        # histories of typing calls with default files, verbatim copies and an edited copy
        configs = {"default": (None, None), "copies": (par, itp), "copy-rules": (par, None), "copy-nb": (None, itp), "zero-charge": (None, itp0), "zero-charge+copy": (par, itp0)}
        names = list(configs)
        for h in range(task["histories"]):
            seq = [rng.choice(names) for _ in range(rng.randint(2, 5))]
            text, mg = rng.choice(mols)
            if text not in base:
                continue
            # a call naming files that cannot be read must fail EVERY time, whatever was typed before (and must not disturb later calls)
            if rng.random() < 0.5:
                seq.insert(rng.randint(0, len(seq)), "unreadable")
                if rng.random() < 0.5:
                    seq.insert(seq.index("unreadable") + 1, "unreadable")
            for step, cfg in enumerate(seq):
                if cfg == "unreadable":
                    evals += 1
                    try:
                        mg.get_forcefield_types(smarts_filename=os.path.join(tmp, "missing.par"), nb_filename=os.path.join(tmp, "missing.itp"))
                        viol.append({"key": K + "[history-free]", "clause": "parameter files that cannot be read are an error on every call (no stale assigner is returned)",
                                     "detail": {"history": seq[:step + 1]}, "input": {"text": text}})
                        break
                    except FfAssignmentError:
                        raise
                    except Exception:
                        continue
                st, ff, mol = typed(mg, *configs[cfg])
                evals += 1
                if st != "ok":
                    viol.append({"key": K + "[history-free]", "clause": "typing does not depend on earlier typing calls; copies of the bundled files give the default result",
                                 "detail": {"history": seq[:step + 1], "outcome": "partial"}, "input": {"text": text}})
                    break
                sig = signature(ff, mol)
                if "zero-charge" in cfg:
                    ok = all(abs(x[2]) < 1e-12 for x in sig) and [(x[0], x[1], x[3], x[4], x[5]) for x in sig] == [(x[0], x[1], x[3], x[4], x[5]) for x in base[text]]
                else:
                    ok = sig == base[text]
                if not ok:
                    viol.append({"key": K + "[history-free]", "clause": "typing does not depend on earlier typing calls; copies of the bundled files give the default result; named files are the ones used",
                                 "detail": {"history": seq[:step + 1]}, "input": {"text": text}})
                    break
            distinct.add(tuple(seq))
        # representation invariant of the assigner: type names <-> numeric ids is a bijection, and every type with parameters is reachable by name, by id and
        # by id-of-name (get_ffparam(get_type(x)) is how every atom's parameters are looked up)
        if task.get("invariant"):
            for cfgname, (sm, nbf) in (("default", (None, None)), ("copies", (par, itp))):
                a = get_assignment_class(sm, nbf)
                evals += 1
                KI = "C20/SMARTS_ASSIGNMENTS.__init__/post"
                ids = list(a._type_dict.values())
                if len(set(ids)) != len(ids) or any(a._type_dict_rev.get(i) != t for t, i in a._type_dict.items()) or len(a._type_dict_rev) != len(a._type_dict):
                    clash = [(t, i, a._type_dict_rev.get(i)) for t, i in a._type_dict.items() if a._type_dict_rev.get(i) != t][:4]
                    viol.append({"key": KI + "[type-ids-are-a-bijection]", "clause": "numeric type ids and type names determine each other (id -> name -> id and name -> id -> name are identities)",
                                 "detail": {"files": cfgname, "types": len(a._type_dict), "ids": len(set(ids)), "first_clashes": clash}, "input": {"files": cfgname}})
                for t in a._type_param:
                    if a.get_ffparam(a._type_dict[t]) is not a._type_param[t] or a.get_ffparam(a.get_type(t)) is not a._type_param[t] or a.get_type(a.get_type(t)) != t:
                        viol.append({"key": KI + "[lookup-by-name-and-id-agree]", "clause": "looking a type up by id or by id-of-name gives that type's own parameter set (name -> id -> name is the identity)",
                                     "detail": {"files": cfgname, "type": t}, "input": {"files": cfgname, "type": t}})
                        break
                if set(a._rule_dict.values()) - set(a._type_dict):
                    viol.append({"key": KI + "[every-rule-names-a-known-type]", "clause": "every SMARTS rule names a type that has an id", "detail": {}, "input": {"files": cfgname}})
        # a partially generated molecule is refused
        with warnings.catch_warnings():
            warnings.simplefilter("ignore")
            part = MolGen(SmilesToken("[$]CC", 0, 0))
        evals += 1
        try:
            part.get_forcefield_types()
            viol.append({"key": "C20/MolGen.get_forcefield_types/must-raise[partial-molecule]", "clause": "a partially generated molecule is refused", "detail": {}, "input": {"token": "[$]CC"}})
        except RuntimeError:
            pass
    finally:
        shutil.rmtree(tmp, ignore_errors=True)
    seen, uniq = set(), []
    for v in viol:
        if v["key"] not in seen:
            seen.add(v["key"])
            uniq.append(v)
    return {"evaluations": evals, "distinct": [hash(x) for x in distinct], "violations": uniq, "samples": samples}


def run(tier="quick", seed=0):
    ren = 4 if tier == "quick" else 20
    hist = 6 if tier == "quick" else 40
    tasks = [{"texts": [t], "seed": seed + i, "renumber": ren, "histories": hist, "typable": True} for i, t in enumerate(TYPABLE)]
    tasks += [{"texts": FIXED[i:i + 3], "seed": seed + 50 + i, "renumber": ren, "histories": hist, "typable": True} for i in range(0, len(FIXED), 3)]
    tasks += [{"texts": ["CC[Si](C)(C)C", "CCBr", "C[N+](C)(C)C"], "seed": seed + 90, "renumber": 1, "histories": 0, "typable": False, "invariant": True}]
    tasks += [{"texts": DIVERSE[i:i + 6], "seed": seed + 120 + i, "renumber": 1 if tier == "quick" else 6, "histories": 0, "typable": False} for i in range(0, len(DIVERSE), 6)]
    res = harness.run_tasks("monitor.drive_C20", "work", tasks, timeout=900 if tier == "quick" else 3000)
    out = harness.merge(res, rule="generated molecules of typable chemistry (styrene / acrylate / ethylene / propylene / ethylene-oxide chains, small esters, amides, "
                        "amines) x random atom renumberings x random histories of typing calls over {default files, verbatim copies, one copy, an edited copy with all "
                        "charges zero}; small molecules of diverse chemistry (hetero-aromatics, halides, ions, sulfur, nitro, nitrile: element masses, numbering); the assigner's "
                        "representation invariant (type name <-> id bijection, look-ups by name / id agree) on the default files and on copies; chemistry the parameter set does not cover must raise the dedicated error with the partial assignment. "
                        "distinct = molecules and histories")
    out["assumptions"] = ["bounded layer: only the enumerated molecules, renumberings and histories; RDKit substructure matching is trusted"]
    return out
