"""Bounded layer for C09: block sizes against the declared distribution, decided exactly at scripted quantiles.

With a generator whose uniform / normal variates are the quantile u, the drawn target is the u-quantile of the law the object
was handed, so "a block stops after n units with probability F(m_n) - F(m_(n-1))" becomes: for every u, the observed number of
units is  min{n : m_n > Q(u)}  with Q the quantile function of the *documented* law (monitor/distlaw.py) and m_n the measured
cumulative heavy-atom mass of the block.  One and two blocks per molecule; the same parsed object is generated repeatedly."""
import math
import warnings

from . import distlaw, harness
from .genaudit import Audit


def quantile(ref, u):
    if ref.discrete:
        lo = int(ref.support[0])
        k, step = lo, 1
        while ref.cdf(k) < u:
            k += step
            step = min(step * 2, 4096)
            if k > 5e7:
                raise RuntimeError(f"reference law of {type(ref).__name__} does not reach the {u}-quantile (checker)")
        # back off to the smallest k with cdf(k) >= u
        lo2 = max(lo, k - 2 * step)
        while lo2 < k:
            mid = (lo2 + k) // 2
            if ref.cdf(mid) >= u:
                k = mid
            else:
                lo2 = mid + 1
        return float(k)
    a, b = -1e7, 1e7
    if ref.support[0] > -math.inf:
        a = ref.support[0]
    if ref.support[1] < math.inf:
        b = ref.support[1]
    for _ in range(200):
        mid = 0.5 * (a + b)
        if ref.cdf(mid) < u:
            a = mid
        else:
            b = mid
    return 0.5 * (a + b)


UNITS = {"gauss": "CC", "uniform": "C", "poisson": "C", "flory_schulz": "C", "schulz_zimm": "CC", "log_normal": "CC(C)"}


def blocks_of(trace):
    out = []
    for rec in trace["stoch"]:
        if "n_attach1" not in rec:
            out.append(None)
            continue
        ev = [e for e in trace["attach"][rec["n_attach0"]:rec["n_attach1"]] if not e.get("refused")]
        if not ev:
            out.append({"n": 0, "masses": [], "W0": rec["prefix_mass"]})
            continue
        g = [e for e in ev if e["mol"] == ev[0]["mol"]]
        W0 = rec["prefix_mass"]
        out.append({"n": len(g), "masses": [e["mass_after"] - W0 for e in g], "W0": W0})
    return out


def work(task):
    from gbigsmiles import Molecule
    viol, evals, distinct, samples = [], 0, set(), []
    specs = task["specs"]                       # list of (family, params) : one block each
    refs = [distlaw.REF[n](*p) for n, p in specs]
    text = "C" + "".join("{[>][<]" + UNITS[n] + "[>][<]}|" + distlaw.text_of(n, p) + "|" for n, p in specs) + "F"
    inp = {"text": text}
    with warnings.catch_warnings():
        warnings.simplefilter("ignore")
        mol = Molecule(text)           # ONE parsed object for all generations
        for u in task["quantiles"]:
            aud = Audit().install()
            try:
                res = mol.generate(rng=distlaw.QuantileRng(u))
                err = None
            except Exception as e:
                res, err = None, e
            finally:
                aud.uninstall()
            evals += 1
            if err is not None:
                if harness.raised_in_checker(err):
                    raise err
                tag = ("[scipy-inverse-search]" + "".join(f"[{n}]" for n in sorted({n for n, _ in specs if n in ("schulz_zimm", "flory_schulz")}))) if "updating stopped" in str(err) else ""
                tag += "".join("[Mw>=2Mn]" for n, p in specs if n == "schulz_zimm" and p[0] >= 2 * p[1])[:9]
                viol.append({"key": f"C09/Molecule.generate/safe[{type(err).__name__}]{tag}", "clause": "a block of the declared size is generated",
                             "detail": {"quantile": u, "error": str(err)[:100]}, "input": inp})
                continue
            blocks = blocks_of(aud.trace)
            draws = aud.trace["draws"]
            for k, (b, ref) in enumerate(zip(blocks, refs)):
                if b is None or k >= len(draws):
                    continue
                T = quantile(ref, u) if specs[k][0] != "poisson" else draws[k]["value"]
                # measured cumulative masses m_1..m_n ; the next one extrapolated from the unit mass
                ms = b["masses"]
                unit = ms[0] if ms else 0
                want = next((i + 1 for i, m in enumerate(ms) if m > T), None)
                near = any(abs(ref.cdf(m) - u) < 1e-6 for m in ms) or abs(ref.cdf(T) - u) < 1e-9 and not ref.discrete and False
                distinct.add((tuple(map(str, specs)), k, b["n"]))
                if near:
                    continue
                ok = (want == b["n"]) if want is not None else False
                if not ok:
                    z1 = "[Mw>=2Mn]" if specs[k][0] == "schulz_zimm" and specs[k][1][0] >= 2 * specs[k][1][1] else ""      # known finding (DESIGN 6): mass on M = 0
                    viol.append({"key": f"C09/Stochastic.generate/post[block-size-law][{specs[k][0]}]{z1}",
                                 "clause": "the block stops after n units exactly for the quantiles between F(m_(n-1)) and F(m_n) of the declared distribution",
                                 "detail": {"block": k, "distribution": distlaw.text_of(*specs[k]), "quantile": u, "documented_quantile_mass": T,
                                            "drawn": draws[k]["value"], "units": b["n"], "cumulative_masses": ms[-3:], "expected_units": want},
                                 "input": inp})
            if len(samples) < 1:
                samples.append({"text": text, "quantile": u, "units": [b and b["n"] for b in blocks]})
    seen, uniq = set(), []
    for v in viol:
        if v["key"] not in seen:
            seen.add(v["key"])
            uniq.append(v)
    return {"evaluations": evals, "distinct": [hash(x) for x in distinct], "violations": uniq, "samples": samples}


SMALL = {"gauss": [(100.0, 20.0), (60.0, 45.0)], "uniform": [(12, 72), (96, 97)], "poisson": [(65.0,)], "flory_schulz": [(0.1,)],
         "schulz_zimm": [(120.0, 100.0), (200.0, 100.0), (300.0, 100.0)], "log_normal": [(80.0, 1.3)]}


def run(tier="quick", seed=0):
    qs = [0.003, 0.02, 0.11, 0.27, 0.5, 0.66, 0.81, 0.93, 0.985, 0.999] if tier == "quick" else [i / 101 for i in range(1, 101)] + [1e-4, 0.9995]
    tasks = []
    fams = list(SMALL)
    for f in fams:
        for p in SMALL[f]:
            tasks.append({"specs": [(f, p)], "quantiles": qs})
    # two blocks per molecule: the prefix mass of the second block differs from generation to generation
    pairs = [("uniform", "gauss"), ("gauss", "poisson"), ("schulz_zimm", "uniform"), ("log_normal", "flory_schulz"), ("poisson", "schulz_zimm"), ("flory_schulz", "log_normal")]
    for a, b in pairs:
        tasks.append({"specs": [(a, SMALL[a][0]), (b, SMALL[b][0])], "quantiles": qs})
    res = harness.run_tasks("monitor.drive_C09", "work", tasks, timeout=600 if tier == "quick" else 2400)
    from . import purecheck
    res += harness.run_tasks("monitor.purecheck", "work", purecheck.law_tasks("C09", tier), timeout=600)
    out = harness.merge(res, rule="homopolymer blocks of every family x parameter set, one and two blocks per molecule, one parsed object generated at every "
                        "quantile of a scripted grid; documented law as oracle; the three custom mass / density functions (_pmf / _pdf) against the ensures clause of their contract on an argument grid with the boundary cases mass 0, z == 1, z < 1. distinct = (molecule, block, number of units) outcomes")
    out["assumptions"] = ["bounded layer: only the parameter / quantile grid; the statistical statement itself (frequencies over random streams) is not decided: "
                          "it follows from the quantile law on paper, given that scipy's samplers apply the inverse cdf to a uniform variate (trusted)",
                          "poisson draws are not scriptable by quantile (numpy's own sampler): for poisson the block size is checked against the value actually drawn"]
    return out
