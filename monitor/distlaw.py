"""Reference laws of the six molecular-weight distributions, written from the documentation (README / class docstrings),
independent of the repository's scipy plumbing, plus a generator whose uniform / normal variates are scripted."""
import math

import numpy as np


class QuantileRng(np.random.Generator):
    """every uniform variate is u, every standard normal variate is the u-quantile: scipy's inverse-cdf samplers then return
    the u-quantile of the law they were handed"""

    def __init__(self, u):
        super().__init__(np.random.PCG64(1))
        self.u = float(u)

    def uniform(self, low=0.0, high=1.0, size=None):
        v = low + (high - low) * self.u
        return v if size is None else np.full(size, v)

    def random(self, size=None, dtype=np.float64, out=None):
        return self.u if size is None else np.full(size, self.u)

    def standard_normal(self, size=None, dtype=np.float64, out=None):
        from statistics import NormalDist
        z = NormalDist().inv_cdf(min(max(self.u, 1e-15), 1 - 1e-15))
        return z if size is None else np.full(size, z)

    def normal(self, loc=0.0, scale=1.0, size=None):
        z = self.standard_normal()
        v = loc + scale * z
        return v if size is None else np.full(size, v)


def phi(x):
    return 0.5 * (1.0 + math.erf(x / math.sqrt(2.0)))


class Ref:
    discrete = False

    def interval(self, prev, val):
        return self.cdf(val) - self.cdf(prev)


class Gauss(Ref):
    def __init__(self, mu, sigma):
        self.mu, self.sigma = mu, sigma
        self.mean = mu
        self.support = (-math.inf, math.inf)

    def cdf(self, x):
        return phi((x - self.mu) / self.sigma)

    def pdf(self, x):
        return math.exp(-0.5 * ((x - self.mu) / self.sigma) ** 2) / (self.sigma * math.sqrt(2 * math.pi))

    def grid(self):
        return [self.mu + k * self.sigma for k in (-3, -1.5, -0.5, 0, 0.25, 1, 2, 3.5)]


class Uniform(Ref):
    def __init__(self, low, high):
        self.low, self.high = low, high
        self.mean = 0.5 * (low + high)
        self.support = (low, high)

    def cdf(self, x):
        return min(1.0, max(0.0, (x - self.low) / (self.high - self.low)))

    def pdf(self, x):
        return 1.0 / (self.high - self.low) if self.low <= x <= self.high else 0.0

    def grid(self):
        w = self.high - self.low
        return [self.low - 0.3 * w, self.low + 0.01 * w, self.low + 0.3 * w, self.low + 0.5 * w, self.low + 0.9 * w, self.high + 0.2 * w]


class Poisson(Ref):
    discrete = True

    def __init__(self, n):
        self.n = n
        self.mean = n
        self.support = (0, math.inf)

    def pmf(self, k):
        if k < 0 or k != int(k):
            return 0.0
        return math.exp(-self.n + k * math.log(self.n) - math.lgamma(k + 1))

    def cdf(self, x):
        if x < 0:
            return 0.0
        return min(1.0, math.fsum(self.pmf(k) for k in range(0, int(math.floor(x)) + 1)))

    def grid(self):
        s = math.sqrt(self.n)
        return sorted({max(0, int(self.n + k * s)) for k in (-3, -1, 0, 1, 2, 4)})


class FlorySchulz(Ref):
    discrete = True

    def __init__(self, a):
        self.a = a
        self.mean = 2.0 / a - 1.0
        self.support = (1, math.inf)

    def pmf(self, k):
        if k < 1 or k != int(k):
            return 0.0
        return self.a ** 2 * k * (1 - self.a) ** (k - 1)

    def cdf(self, x):
        if x < 1:
            return 0.0
        k = int(math.floor(x))
        return 1.0 - (1 - self.a) ** k * (1 + self.a * k)

    def grid(self):
        m = self.mean
        return sorted({max(1, int(m * f)) for f in (0.05, 0.3, 0.7, 1.0, 1.8, 4.0)})


class SchulzZimm(Ref):
    discrete = True

    def __init__(self, mw, mn):
        self.mw, self.mn = mw, mn
        self.z = mn / (mw - mn)
        self.mean = mn
        self.support = (1, math.inf)
        self._c = {}
        # z <= 1 (Mw >= 2 Mn): the documented density does not vanish at 0 (it is 1/Mn for z = 1 and has a pole for z < 1), so its values on the integers
        # M >= 1 do not sum to 1; the oracle is then the documented density on M >= 1, normalised (for z > 1 the sum is 1 to within the tolerances used)
        self.norm = 1.0
        if self.z <= 1:
            self.norm = math.fsum(self._raw(i) for i in range(1, int(80 * mn / self.z) + 2000))

    def _raw(self, m):
        z, mn = self.z, self.mn
        return math.exp((z + 1) * math.log(z) - math.lgamma(z + 1) + (z - 1) * math.log(m) - z * math.log(mn) - z * m / mn)

    def pmf(self, m):
        if m < 1 or m != int(m):
            return 0.0
        return self._raw(m) / self.norm

    def documented(self, m):
        """the documented formula itself (what the clause 'equals the documented mass' refers to)"""
        return self._raw(m) if m >= 1 and m == int(m) else 0.0

    def cdf(self, x):
        if x < 1:
            return 0.0
        k = int(math.floor(x))
        if k not in self._c:
            self._c[k] = math.fsum(self.pmf(i) for i in range(1, k + 1))
        return self._c[k]

    def grid(self):
        return sorted({max(1, int(self.mn * f)) for f in (0.1, 0.5, 0.9, 1.0, 1.5, 3.0)})


class LogNormal(Ref):
    def __init__(self, m, d):
        self.m, self.d = m, d
        self.mean = m
        self.support = (0.0, math.inf)

    def cdf(self, x):
        if x <= 0:
            return 0.0
        s = math.sqrt(math.log(self.d))
        return phi((math.log(x / self.m) + math.log(self.d) / 2.0) / s)

    def pdf(self, x):
        if x <= 0:
            return 0.0
        ld = math.log(self.d)
        return math.exp(-((math.log(x / self.m) + ld / 2) ** 2) / (2 * ld)) / (x * math.sqrt(2 * math.pi * ld))

    def grid(self):
        return [self.m * f for f in (0.2, 0.6, 0.9, 1.0, 1.3, 2.5)]


CASES = {
    "quick": [("gauss", (100.0, 20.0)), ("gauss", (5000.0, 50.0)), ("gauss", (60.0, 45.0)), ("uniform", (12, 72)), ("uniform", (500, 600)), ("uniform", (96, 97)),
              ("poisson", (65.0,)), ("poisson", (4.0,)), ("flory_schulz", (0.1,)), ("flory_schulz", (0.3,)), ("schulz_zimm", (120.0, 100.0)),
              ("schulz_zimm", (700.0, 600.0)), ("schulz_zimm", (200.0, 100.0)), ("schulz_zimm", (300.0, 100.0)), ("log_normal", (50.0, 1.1)), ("log_normal", (300.0, 1.6))],
}
CASES["thorough"] = CASES["quick"] + [("gauss", (1.0, 0.05)), ("gauss", (1e4, 3e3)), ("uniform", (0, 5)), ("uniform", (1000, 5000)), ("poisson", (900.0,)),
                                      ("poisson", (0.7,)), ("flory_schulz", (0.6,)), ("flory_schulz", (0.08,)), ("schulz_zimm", (1500.0, 1400.0)),
                                      ("schulz_zimm", (60.0, 40.0)), ("schulz_zimm", (5000.0, 4500.0)), ("log_normal", (1000.0, 1.05)), ("log_normal", (20.0, 2.5))]
REF = {"gauss": Gauss, "uniform": Uniform, "poisson": Poisson, "flory_schulz": FlorySchulz, "schulz_zimm": SchulzZimm, "log_normal": LogNormal}
PARAM_NAMES = {"gauss": ["_mu", "_sigma"], "uniform": ["_low", "_high"], "schulz_zimm": ["_Mw", "_Mn"], "log_normal": ["_M", "_D"], "poisson": ["_N"], "flory_schulz": ["_a"]}
CLASS = {"gauss": "Gauss", "uniform": "Uniform", "schulz_zimm": "SchulzZimm", "log_normal": "LogNormal", "poisson": "Poisson", "flory_schulz": "FlorySchulz"}


def text_of(name, params):
    return f"{name}(" + ", ".join(repr(p) for p in params) + ")"
