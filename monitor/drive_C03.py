"""Bounded layer for C03: the contracts of is_compatible and of the candidate filter evaluated at run time on the real
functions over the property's finite universe {[], $, <, >} x ids {none, 0..12} x prefixes {none, -, =, #, :} x weight forms."""
import itertools
import random

from . import harness

SYMS = ["", "$", "<", ">"]
IDS = [""] + list(range(13))
PREFIXES = ["", "-", "=", "#", ":"]
WEIGHTS = ["", "|2.5|", "|1 2 3|", "|0|", "|0 0|"]
KEYS = ["bond.BondDescriptor.is_compatible", "core.get_compatible_bond_descriptor_ids"]


def universe(weight_forms):
    out = []
    for s, i, p, w in itertools.product(SYMS, IDS, PREFIXES, weight_forms):
        if s == "":
            if i != "" or w != "":
                continue
            out.append(("[]", p))
        else:
            out.append((f"[{s}{i}{w}]", p))
    return out


def make(desc):
    from gbigsmiles.bond import BondDescriptor
    text, prefix = desc
    return BondDescriptor(text, 0, prefix, 0)


def work(task):
    import contracts  # noqa: F401
    from .install import Monitor
    mon = Monitor().install(KEYS)
    kind = task["kind"]
    evals, distinct, samples = 0, set(), []
    viol = []
    try:
        if kind == "pairs":
            uni = universe(task["weights"])
            objs = [make(d) for d in uni]
            for ia in task["rows"]:
                a = objs[ia]
                for ib, b in enumerate(objs):
                    mon.context = {"a": uni[ia], "b": uni[ib]}
                    r = a.is_compatible(b)
                    r2 = b.is_compatible(a)
                    evals += 1
                    if r:
                        distinct.add((ia, ib))
                    if r != r2:
                        viol.append({"key": "C03/symmetry", "clause": "compat(a,b) == compat(b,a)", "input": mon.context})
            samples.append({"a": uni[task["rows"][0]], "b": uni[-1], "compatible": bool(objs[task["rows"][0]].is_compatible(objs[-1]))})
        elif kind == "weights":
            # weights never influence the relation: every weighted form agrees with the unweighted one
            rng = random.Random(task["seed"])
            base = universe([""])
            for _ in range(task["n"]):
                da, db = rng.choice(base), rng.choice(base)
                a0, b0 = make(da), make(db)
                ref = a0.is_compatible(b0)
                for wa, wb in itertools.product(WEIGHTS, WEIGHTS):
                    def w(d, ww):
                        return (d[0][:-1] + ww + "]", d[1]) if d[0] != "[]" else d
                    mon.context = {"a": w(da, wa), "b": w(db, wb)}
                    got = make(w(da, wa)).is_compatible(make(w(db, wb)))
                    evals += 1
                    if got != ref:
                        viol.append({"key": "C03/weights-irrelevant", "clause": "weights never influence compatibility", "input": mon.context})
                distinct.add((da, db))
        elif kind == "filter":
            from gbigsmiles.core import get_compatible_bond_descriptor_ids
            rng = random.Random(task["seed"])
            uni = universe(WEIGHTS)
            for _ in range(task["n"]):
                lst = [rng.choice(uni) for _ in range(rng.randint(0, 6))]
                bond = rng.choice(uni + [None, None])
                # bias towards lists that contain partners of `bond`
                if bond is not None and bond[0] != "[]" and rng.random() < 0.7:
                    sym = bond[0][1]
                    partner = {"$": "$", "<": ">", ">": "<"}[sym]
                    lst.insert(rng.randint(0, len(lst)), ("[" + partner + bond[0][2:], bond[1]))
                mon.context = {"bond_descriptors": lst, "bond": bond}
                res = get_compatible_bond_descriptor_ids([make(d) for d in lst], None if bond is None else make(bond))
                evals += 1
                distinct.add((tuple(lst), bond, tuple(int(x) for x in res)))
                if len(samples) < 2:
                    samples.append({"bond_descriptors": lst, "bond": bond, "result": [int(x) for x in res]})
    finally:
        mon.uninstall()
    return {"evaluations": evals, "distinct": [hash(x) for x in distinct], "violations": viol + mon.violations, "samples": samples,
            "per_clause": mon.per_clause, "outside_pre": mon.outside_pre, "sort_errors": mon.sort_errors}


def run(tier="quick", seed=0):
    weights = [""] if tier == "quick" else WEIGHTS
    n = len(universe(weights))
    rows = list(range(n))
    chunk = max(1, n // 28)
    tasks = [{"kind": "pairs", "weights": weights, "rows": rows[i:i + chunk]} for i in range(0, n, chunk)]
    tasks += [{"kind": "weights", "seed": seed + i, "n": 60 if tier == "quick" else 600} for i in range(4)]
    tasks += [{"kind": "filter", "seed": seed + 100 + i, "n": 300 if tier == "quick" else 3000} for i in range(8)]
    res = harness.run_tasks("monitor.drive_C03", "work", tasks, timeout=300 if tier == "quick" else 1500)
    out = harness.merge(res, rule="all ordered pairs of the descriptor universe (symbols x ids none,0..12 x prefixes none,-,=,#,:"
                        + (" x weight forms none/scalar/list" if tier != "quick" else "; weight forms on a random subset")
                        + "), built with the real constructor, through the monitored real is_compatible; random descriptor lists through the "
                        "monitored candidate filter. distinct = compatible pairs / distinct (list, bond, result) triples",
                        exhaustive=(tier != "quick"))
    out["assumptions"] = ["bounded layer: only the enumerated universe"]
    return out
