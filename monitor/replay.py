"""./check <id> --replay <file>: re-run what produced the violation recorded in the replay file, on the current tree.
exit 1 (and a VIOLATION line) if it still fails, 0 if it no longer does."""
import importlib
import json
import os


def run(prop, path):
    rec = json.load(open(path))
    key = rec.get("key") or rec.get("obligation")
    tier = os.environ.get("VERIF_TIER", "quick")
    seed = int(os.environ.get("VERIF_SEED", "0"))
    if rec.get("source") == "proof":
        from pyvc import registry as R
        from pyvc.run import group, prove
        fkey = rec["obligation"].split("/")[0].split("{")[0]
        funcs, obligations, undecided, _, _ = prove(prop, tier, R, only_keys={fkey})
        g = group(obligations).get(rec["obligation"])
        print(f"replay {rec['obligation']}: {g['verdict'] if g else 'not generated'}")
        if g and g["verdict"] == "refuted":
            print(f"VIOLATION property={prop} replay={path} no-failing-input-found")
            return 1
        return 0 if g and g["verdict"] == "discharged" else 2
    mod = importlib.import_module(f"monitor.drive_{prop}")
    out = mod.run(tier=tier, seed=seed)
    hits = [v for v in out.get("violations", []) if v.get("key") == key]
    print(f"replay {key}: {'still violated' if hits else 'not reproduced'}; recorded input: {json.dumps(rec.get('input'))[:300]}")
    if hits:
        print(f"VIOLATION property={prop} replay={path}")
        return 1
    return 0
