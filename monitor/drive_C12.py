"""Bounded layer for C12: System bookkeeping of mixture masses against an independent solution of the specification.

All assignments of {absolute, percent, unspecified} to 1-5 components (values random positive), consistent and inconsistent
totals, with and without a caller-supplied system mass.  Oracle: the linear system  abs_i = pct_i/100 * W,  sum pct = 100."""
import itertools
import random
import warnings

from . import harness

COMPS = ["C", "CC", "CCC", "CCCC", "CCCCC"]


def solve(kinds, vals, W):
    """-> ('determined', W, [(abs, pct)...]) | ('under',) | ('contradictory',)"""
    n = len(kinds)
    A = [i for i in range(n) if kinds[i] == "abs"]
    P = [i for i in range(n) if kinds[i] == "pct"]
    N = [i for i in range(n) if kinds[i] == "none"]
    R = sum(vals[i] for i in P)
    S = sum(vals[i] for i in A)
    if R > 100 + 1e-9:
        return ("contradictory",)
    if len(N) >= 2:
        return ("under",)
    if W is None:
        if not N:
            if not A:
                return ("under",) if abs(R - 100) < 1e-9 else ("contradictory",)
            if not P:
                W = S
            else:
                if R >= 100 - 1e-9:
                    return ("contradictory",)
                W = S / (1 - R / 100.0)
        else:
            return ("under",)
    else:
        if not N:
            if abs(R + 100.0 * S / W - 100) > 1e-7:
                return ("contradictory",)
        else:
            r = 100 - R - 100.0 * S / W
            if r < -1e-9:
                return ("contradictory",)
    out = []
    for i in range(n):
        if kinds[i] == "abs":
            out.append((vals[i], 100.0 * vals[i] / W))
        elif kinds[i] == "pct":
            out.append((vals[i] / 100.0 * W, vals[i]))
        else:
            r = 100 - R - 100.0 * S / W
            out.append((r / 100.0 * W, r))
    return ("determined", W, out)


def text_of(kinds, vals):
    t = ""
    for i, (k, v) in enumerate(zip(kinds, vals)):
        t += COMPS[i]
        if k == "abs":
            t += f".|{v!r}|"
        elif k == "pct":
            t += f".|{v!r}%|"
        elif i < len(kinds) - 1:
            t += "."
    return t


def klass(kinds, W):
    s = "+".join(f"{kinds.count(x)}{x}" for x in ("abs", "pct") if x in kinds)
    nn = kinds.count("none")
    return (s or "nothing") + (f"+{nn}unspecified" if nn else "") + ("+caller-mass" if W is not None else "")


def check(kinds, vals, W, viol):
    from gbigsmiles import System
    text = text_of(kinds, vals)
    inp = {"text": text, "system_mass": W}
    exp = solve(kinds, vals, W)
    K = "C12/System.__init__"
    try:
        with warnings.catch_warnings():
            warnings.simplefilter("ignore")
            s = System(text, W) if W is not None else System(text)
    except Exception as e:
        if harness.raised_in_checker(e):
            raise
        if exp[0] != "contradictory":
            viol.append({"key": f"{K}/safe[{type(e).__name__}][{exp[0]}:{klass(kinds, W)}]", "clause": "only contradictory or over-100 % specifications are rejected",
                         "detail": {"expected": exp[0], "error": str(e)[:100]}, "input": inp})
        return exp[0]
    if exp[0] == "contradictory":
        viol.append({"key": f"{K}/must-raise[contradictory][{klass(kinds, W)}]", "clause": "contradictory or over-100 % specifications are rejected",
                     "detail": {"generable": s.generable}, "input": inp})
        return exp[0]
    if exp[0] == "under":
        if s.generable:
            viol.append({"key": f"{K}/post[under-determined-not-generable][{klass(kinds, W)}]", "clause": "under-determined systems report that they are not generable",
                         "detail": {}, "input": inp})
        return exp[0]
    if not s.generable:
        viol.append({"key": f"{K}/post[determined-generable][{klass(kinds, W)}]", "clause": "a specification that determines the system yields a generable system",
                     "detail": {"expected_system_mass": exp[1]}, "input": inp})
        return exp[0]
    Wexp, comp = exp[1], exp[2]
    tot = 0.0
    for i, m in enumerate(s._molecules):
        mx = m.mixture
        a, r, w = mx.absolute_mass, mx.relative_mass, mx.system_mass
        tot += r
        tol = 1e-6 * max(1.0, Wexp)
        if abs(a - comp[i][0]) > tol or abs(r - comp[i][1]) > 1e-6 or abs(w - Wexp) > tol or abs(a - r / 100.0 * w) > tol:
            viol.append({"key": f"{K}/post[masses-consistent]", "clause": "each absolute mass is its percentage of the one system mass; written values are preserved",
                         "detail": {"component": i, "got": (a, r, w), "want": (comp[i][0], comp[i][1], Wexp)}, "input": inp})
            break
    if abs(tot - 100) > 1e-6:
        viol.append({"key": f"{K}/post[percent-sum]", "clause": "the percentages sum to 100", "detail": {"sum": tot}, "input": inp})
    # printing then re-parsing keeps all masses
    try:
        with warnings.catch_warnings():
            warnings.simplefilter("ignore")
            s2 = System(str(s))
        if not s2.generable or any(abs(m2.mixture.absolute_mass - m.mixture.absolute_mass) > 1e-6 * max(1, Wexp) for m, m2 in zip(s._molecules, s2._molecules)):
            viol.append({"key": f"{K}/post[reparse-keeps-masses]", "clause": "printing then re-parsing keeps all masses", "detail": {"printed": str(s)}, "input": inp})
    except Exception as e:
        viol.append({"key": f"{K}/post[reparse-keeps-masses]", "clause": "printing then re-parsing keeps all masses", "detail": {"printed": str(s), "error": str(e)[:80]}, "input": inp})
    return exp[0]


def work(task):
    rng = random.Random(task["seed"])
    viol, evals, distinct, samples = [], 0, set(), []
    for kinds in task["kinds"]:
        n = len(kinds)
        for rep in range(task["reps"]):
            # a consistent ground truth, then optionally perturbed
            W0 = rng.choice([1000.0, 5e4, 123.5, 7.25e5])
            raw = [rng.uniform(0.5, 5) for _ in range(n)]
            pcts = [100.0 * x / sum(raw) for x in raw]
            pcts = [round(p, 3) for p in pcts[:-1]]
            pcts.append(100.0 - sum(pcts))
            vals = [pcts[i] / 100.0 * W0 if k == "abs" else (pcts[i] if k == "pct" else None) for i, k in enumerate(kinds)]
            for W in (None, W0):
                for perturb in ((None,) if rep == 0 else (None, "value", "mass")):
                    v2, W2 = list(vals), W
                    if perturb == "value":
                        idx = [i for i, k in enumerate(kinds) if k != "none"]
                        if not idx:
                            continue
                        j = rng.choice(idx)
                        v2[j] = v2[j] * rng.choice([0.5, 1.7]) if kinds[j] == "abs" else min(99.9, v2[j] * rng.choice([0.5, 1.7, 3.0]))
                    if perturb == "mass":
                        if W is None:
                            continue
                        W2 = W * rng.choice([0.8, 1.25])
                    st = check(kinds, v2, W2, viol)
                    evals += 1
                    distinct.add((kinds, W2 is not None, perturb, st))
                    if len(samples) < 2:
                        samples.append({"text": text_of(kinds, v2), "system_mass": W2, "expected": st})
    seen, uniq = set(), []
    for v in viol:
        if v["key"] not in seen:
            seen.add(v["key"])
            uniq.append(v)
    return {"evaluations": evals, "distinct": [hash(x) for x in distinct], "violations": uniq, "samples": samples}


def run(tier="quick", seed=0):
    all_kinds = []
    for n in range(1, 6):
        for kinds in itertools.product(("abs", "pct", "none"), repeat=n):
            # the notation can leave only the last component without a specifier ("A.|x|B"): "A.B.|x|" is ONE molecule "A.B"
            if "none" in kinds[:-1]:
                continue
            all_kinds.append(kinds)
    if tier == "quick":
        rng = random.Random(seed)
        big = [k for k in all_kinds if len(k) == 5]
        all_kinds = [k for k in all_kinds if len(k) <= 4] + big
    chunk = 12
    tasks = [{"kinds": all_kinds[i:i + chunk], "seed": seed * 1000 + i, "reps": 2 if tier == "quick" else 6} for i in range(0, len(all_kinds), chunk)]
    res = harness.run_tasks("monitor.drive_C12", "work", tasks, timeout=300 if tier == "quick" else 1800)
    out = harness.merge(res, rule="all assignments of {absolute, percent} to 1-5 components with the last one possibly unspecified (the only position the notation can leave open; quick: 40 of the 48 five-component ones) "
                        "x random positive values x {consistent, one value perturbed, caller mass perturbed} x {with, without caller mass}; independent linear "
                        "solution as oracle. distinct = (assignment, caller mass?, perturbation, expected class)", exhaustive=False)
    out["assumptions"] = ["bounded layer: random values on the enumerated assignments"]
    return out
