"""Bounded layer for C14 (see monitor/sysdrive.py)."""
from . import sysdrive


def run(tier="quick", seed=0):
    return sysdrive.run_for(["C14"], tier, seed)
