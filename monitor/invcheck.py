"""Run-time check of the object invariants the generator proofs ASSUME (they are established by the string-surgery constructors, which
the engine cannot execute): the same contract text (contracts/stochastic.py `_STOCH_REQ`, contracts/mol_gen.py `token_wf`), evaluated
natively on every parsed object a driver sees.  This is also the vacuity guard of those preconditions: they hold of real objects."""
import warnings

from monitor.native import Env


class _Any:
    """ghost ownership is not observable natively: compares equal to everything"""
    def __eq__(self, other):
        return True

    def __ne__(self, other):
        return False

    __hash__ = object.__hash__


def _natives():
    from rdkit import Chem
    cache = {}

    def smiles_mol(s):
        if s not in cache:
            cache[s] = Chem.MolFromSmiles(s, True)
        return cache[s]
    return {"owner": lambda o: _Any(), "frag_text": lambda t: t.generate_smiles_fragment(), "smiles_mol": smiles_mol,
            "natoms": lambda m: m.GetNumAtoms(), "mass": lambda m: 0.0}


def _maxlen(objs, depth=4):
    n, seen, todo = 0, set(), [(o, 0) for o in objs]
    while todo:
        o, d = todo.pop()
        if id(o) in seen or d > depth:
            continue
        seen.add(id(o))
        if isinstance(o, (list, tuple)):
            n = max(n, len(o))
            todo.extend((x, d + 1) for x in o[:64])
        elif hasattr(o, "__dict__") and type(o).__module__.startswith("gbigsmiles"):
            todo.extend((x, d + 1) for x in vars(o).values())
        else:
            try:
                import numpy as np
                if isinstance(o, np.ndarray):
                    n = max(n, len(o))
            except Exception:
                pass
    return n


def failed_invariants(obj):
    """labels of the assumed invariant clauses that do NOT hold of a parsed Stochastic / SmilesToken / Molecule"""
    import contracts  # noqa: F401
    from contracts.stochastic import _STOCH_REQ
    from gbigsmiles.stochastic import Stochastic
    from gbigsmiles.token import SmilesToken
    out = []
    with warnings.catch_warnings():
        warnings.simplefilter("ignore")
        if hasattr(obj, "_elements"):
            for e in obj._elements:
                out += failed_invariants(e)
            return out
        if isinstance(obj, Stochastic):
            env = Env({}, {"self": obj}, {"self": obj})
            env.g.update(_natives())
            n = _maxlen([obj])
            env.domain = lambda: range(-1, n + 2)
            for clause, label in _STOCH_REQ.items():
                try:
                    ok = env.holds(clause)
                except Exception as e:   # an invariant that cannot even be evaluated does not hold
                    ok = False
                    label = f"{label} ({type(e).__name__})"
                if not ok:
                    out.append(label)
        elif isinstance(obj, SmilesToken):
            env = Env({}, {"t": obj}, {"t": obj})
            env.g.update(_natives())
            n = _maxlen([obj])
            env.domain = lambda: range(-1, n + 2)
            try:
                ok = env.holds("token_wf(t)")
            except Exception:
                ok = False
            if not ok:
                out.append("token_wf")
    return out
