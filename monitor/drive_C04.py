"""Bounded layer for C04: clauses of C04 evaluated on audited generations of the real code (see monitor/gendrive.py)."""
from . import gendrive


def run(tier="quick", seed=0):
    return gendrive.run_for(["C04"], tier, seed)
