"""Bounded layer for C04: clauses of C04 evaluated on audited generations of the real code (see monitor/gendrive.py)."""
from . import gendrive, harness


def run(tier="quick", seed=0):
    out = gendrive.run_for(["C04"], tier, seed, rule_extra="+ token._push_pop_atom_branch (which atom a descriptor sits on) on every text over '(', ')', 'C' up to "
                           "length 6 (thorough: 9) x 5 stacks against the ensures clauses of its contract")
    extra = harness.merge(harness.run_tasks("monitor.purecheck", "work", [{"fn": "token._push_pop_atom_branch", "tier": tier, "prop": "C04"}], timeout=600), rule="")
    out["evaluations"] += extra["evaluations"]
    out["violations"] += extra["violations"]
    out["crashes"] += extra["crashes"]
    out["outside_pre"] += extra["outside_pre"]
    return out
