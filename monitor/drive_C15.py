"""Bounded layer for C15: must-raise postconditions of the parsing / generation entry points, by breaking one structural rule
of a valid string at a time; plus termination of parsing under byte-level mutations (per-case alarm and memory limit)."""
import random
import re
import signal
import warnings

import numpy as np

from . import corpus, harness


class CaseTimeout(Exception):
    pass


def _alarm(signum, frame):
    raise CaseTimeout()


def guarded(fn, seconds=10):
    old = signal.signal(signal.SIGALRM, _alarm)
    signal.alarm(seconds)
    try:
        return ("ok", fn())
    except CaseTimeout:
        return ("timeout", None)
    except MemoryError:
        return ("memory", None)
    except Exception as e:
        if harness.raised_in_checker(e):
            raise
        return ("raised", e)
    finally:
        signal.alarm(0)
        signal.signal(signal.SIGALRM, old)


def parse_any(text):
    from gbigsmiles import Molecule, System
    with warnings.catch_warnings():
        warnings.simplefilter("ignore")
        return System(text) if ".|" in text else Molecule(text)


def gen_any(text):
    o = parse_any(text)
    from gbigsmiles import System
    with warnings.catch_warnings():
        warnings.simplefilter("ignore")
        if isinstance(o, System):
            return o.generate(rng=np.random.default_rng(1)), o
        return o.generate(rng=np.random.default_rng(1)), o


def breakers(text, rng, ast=None):
    """(rule, broken text, stage) : stage 'parse' = must be rejected when parsed, 'generate' = at the latest when generated"""
    out = []
    toks = [m for m in re.finditer(r"C\(", text)]
    # unbalanced branches
    i = text.find("CC")
    if i >= 0:
        out.append(("unbalanced-branch", text[:i + 1] + "(" + text[i + 1:], "parse"))
        out.append(("unbalanced-branch", text[:i + 1] + ")" + text[i + 1:], "parse"))
    # unclosed bracket atom
    out.append(("unclosed-bracket", text.replace("C", "[Si", 1) if "{" not in text[:text.find("C") + 1] else text.replace("CC", "C[Si", 1), "parse"))
    # descriptor between two atoms
    m = re.search(r"\](C[A-Za-z(])", text)
    j = text.find("CC")
    if j >= 0:
        out.append(("descriptor-between-atoms", text[:j + 1] + "[$]" + text[j + 1:], "parse"))
        # the same with descriptors that carry a weight (integer, decimal, leading / trailing dot) or an id: the rule is about position, not spelling
        for dtxt in ("[$|0.5|]", "[<|1.5|]", "[>|2|]", "[$1|.25|]", "[$|3.|]"):
            out.append(("descriptor-between-atoms[weighted]", text[:j + 1] + dtxt + text[j + 1:], "parse"))
    # descriptor between two atoms, directly after a closed branch
    mb = re.search(r"\)(?=[A-Zc])", text)
    if mb:
        out.append(("descriptor-between-atoms[after-branch]", text[:mb.end()] + "[$]" + text[mb.end():], "parse"))
        out.append(("descriptor-between-atoms[after-branch,weighted]", text[:mb.end()] + "[$|0.5|]" + text[mb.end():], "parse"))
    # unknown descriptor symbol
    k = text.find("[<]")
    if k < 0:
        k = text.find("[$]")
    if k >= 0:
        out.append(("unknown-symbol", text[:k] + "[&]" + text[k + 3:], "parse"))
        out.append(("unknown-symbol", text[:k] + "[<<]" + text[k + 3:], "generate"))
    # unknown distribution
    d = re.search(r"\|(gauss|uniform|schulz_zimm|poisson|flory_schulz|log_normal)\(", text)
    if d:
        out.append(("unknown-distribution", text[:d.start(1)] + "weibull" + text[d.end(1):], "parse"))
    # transition list of the wrong length / negative weight: on a descriptor of a repeat unit, of an end group, and on the terminals
    if ast is not None:
        import copy
        for ei, e in enumerate(ast["elements"]):
            if not (isinstance(e, dict) and "repeat" in e):
                continue
            for where, get in (("repeat-unit", lambda a: next(p for p in a["elements"][ei]["repeat"][0] if isinstance(p, dict))),
                               ("end-group", lambda a: next(p for p in a["elements"][ei]["end"][0] if isinstance(p, dict)) if a["elements"][ei]["end"] else None),
                               ("left-terminal", lambda a: a["elements"][ei]["left"]), ("right-terminal", lambda a: a["elements"][ei]["right"])):
                for rule, w, stage in (("transition-length", [1, 2, 3, 4, 5, 6, 7, 8, 9, 1, 2], "generate" if "terminal" in where else "parse"), ("negative-weight", -2, "generate")):
                    a2 = copy.deepcopy(ast)
                    d = get(a2)
                    if d is None or d["sym"] == "":
                        continue
                    d["weight"] = w
                    out.append((f"{rule}[{where}]", corpus.molecule_text(a2), stage))
            break
    # text after a mixture specifier / percent out of range / negative mass
    if ".|" not in text:
        out.append(("text-after-mixture", text + ".|50|CC", "parse-molecule"))
        out.append(("percent-out-of-range", text + ".|140%|", "parse"))
        out.append(("percent-out-of-range", text + ".|-5%|", "parse"))
        out.append(("negative-mass", text + ".|-500|", "parse"))
    # nested descriptor
    if k >= 0:
        out.append(("nested-descriptor", text[:k] + "[$[$]]" + text[k + 3:], "parse"))
    return out


def generation_misuse(viol, evals):
    from gbigsmiles import Molecule
    from gbigsmiles.mol_gen import MolGen
    from gbigsmiles.stochastic import Stochastic
    from gbigsmiles.token import SmilesToken
    rng = lambda: np.random.default_rng(3)
    cases = []
    with warnings.catch_warnings():
        warnings.simplefilter("ignore")
        st = Stochastic("{[$][$]CC[$][$]}|uniform(20, 60)|", 0)
        st1 = Stochastic("{[$1][$1]CC[$1][$1]}|uniform(20, 60)|", 0)
        stlt = Stochastic("{[>][<]CC[>][<]}|uniform(20, 60)|", 0)
        nodist = Stochastic("{[$][$]CC[$][$]}", 0)
        cases.append(("missing-prefix", lambda: st.generate(rng=rng())))
        cases.append(("prefix-descriptor-differs[id]", lambda: st1.generate(prefix=MolGen(SmilesToken("C[$2]", 0, 0)), rng=rng())))
        cases.append(("prefix-descriptor-differs[id-vs-none]", lambda: st.generate(prefix=MolGen(SmilesToken("C[$1]", 0, 0)), rng=rng())))
        cases.append(("prefix-descriptor-differs[symbol]", lambda: stlt.generate(prefix=MolGen(SmilesToken("C[<]", 0, 0)), rng=rng())))
        cases.append(("prefix-descriptor-differs[symbol-and-id]", lambda: st1.generate(prefix=MolGen(SmilesToken("C[<]", 0, 0)), rng=rng())))
        # the prefix's descriptor would find a partner among the repeat units, but it is not the one the left terminal names
        st_id = Stochastic("{[$2][$1]CC[$1][$1]}|uniform(20, 60)|", 0)
        st_sym = Stochastic("{[>][>]CC[<][<]}|uniform(20, 60)|", 0)
        st_idn = Stochastic("{[$][$1]CC[$1][$1]}|uniform(20, 60)|", 0)
        cases.append(("prefix-descriptor-differs[id-partner-exists]", lambda: st_id.generate(prefix=MolGen(SmilesToken("C[$1]", 0, 0)), rng=rng())))
        cases.append(("prefix-descriptor-differs[symbol-partner-exists]", lambda: st_sym.generate(prefix=MolGen(SmilesToken("C[<]", 0, 0)), rng=rng())))
        cases.append(("prefix-descriptor-differs[id-vs-none-partner-exists]", lambda: st_idn.generate(prefix=MolGen(SmilesToken("C[$1]", 0, 0)), rng=rng())))
        cases.append(("prefix-descriptor-differs[in-molecule]", lambda: Molecule("CC[$1]{[$2][$1]CC[$1][$1]}|uniform(20, 60)|F").generate(rng=rng())))
        cases.append(("prefix-two-open", lambda: st.generate(prefix=MolGen(SmilesToken("[$]C[$]", 0, 0)), rng=rng())))
        cases.append(("not-generable[no-distribution]", lambda: nodist.generate(prefix=MolGen(SmilesToken("C[$]", 0, 0)), rng=rng())))
        cases.append(("not-generable[molecule]", lambda: Molecule("C{[$][$]CC[$][$]}F").generate(rng=rng())))
        cases.append(("not-generable[negative-weight-token]", lambda: SmilesToken("[$|-1|]CC", 0, 0).generate(rng=rng())))
        cases.append(("consecutive-objects-differ", lambda: Molecule("C{[$][$1]CC[$1][$1]}|uniform(20,60)|{[$2][$2]CC[$2][$]}|uniform(20,60)|F").generate(rng=rng())))
        for name, fn in cases:
            st_, val = guarded(fn, 20)
            evals[0] += 1
            if st_ == "ok":
                viol.append({"key": f"C15/generate/must-raise[{name}]", "clause": "misuse of generation is answered with an error, not with a molecule",
                             "detail": {"returned": getattr(val, "smiles", str(val))[:80]}, "input": {"case": name}})
            elif st_ in ("timeout", "memory"):
                viol.append({"key": f"C15/generate/terminates[{name}]", "clause": "the call terminates", "detail": {}, "input": {"case": name}})


def work(task):
    viol, distinct, samples = [], set(), []
    evals = [0]
    rng = random.Random(task["seed"])
    if task["kind"] == "misuse":
        generation_misuse(viol, evals)
        distinct.add("misuse")
        from gbigsmiles.token import SmilesToken
        for bad in ("CC[$]C", "C[$]C", "C(C)[$]C", "[$]CC(C)[$]C", "[<]CC(c1ccccc1)[>]CC", "C(C)(C)[<]C", "CC(=O)[>]N", "C.[$]C", "C[$", "C((C)", "C)C(", "[$][$]", "C[Q]"):
            st_, val = guarded(lambda: SmilesToken(bad, 0, 0), 10)
            evals[0] += 1
            distinct.add(bad)
            if st_ == "ok" and bad not in ("[$][$]",):
                viol.append({"key": "C15/SmilesToken.__init__/must-raise[ill-formed-token]", "clause": "an ill-formed token is answered with an error",
                             "detail": {"accepted_as": str(val), "fragment": val.generate_smiles_fragment()}, "input": {"token": bad}})
    elif task["kind"] == "break":
        for text in task["texts"]:
            for rule, broken, stage in breakers(text, rng, task.get("asts", {}).get(text)):
                if broken == text:
                    continue
                evals[0] += 1
                distinct.add((rule, broken))
                inp = {"text": broken, "rule": rule, "from": text}
                if stage == "parse-molecule":
                    from gbigsmiles import Molecule
                    st_, val = guarded(lambda: Molecule(broken), 10)
                elif stage == "parse":
                    st_, val = guarded(lambda: parse_any(broken), 10)
                else:
                    st_, val = guarded(lambda: gen_any(broken), 20)
                if st_ == "ok":
                    viol.append({"key": f"C15/parse/must-raise[{rule}]", "clause": "a string that violates a structural rule is answered with an error",
                                 "detail": {"accepted_as": str(val[1] if isinstance(val, tuple) else val)[:120], "stage": stage}, "input": inp})
                elif st_ in ("timeout", "memory"):
                    viol.append({"key": f"C15/parse/terminates[{rule}]", "clause": "parsing any string terminates", "detail": {"how": st_}, "input": inp})
                if len(samples) < 2:
                    samples.append({"rule": rule, "text": broken[:120], "outcome": st_ if st_ != "raised" else type(val).__name__})
    elif task["kind"] == "bytes":
        alphabet = "{}[]()|.,;$<>%=#-CNOc1 0e"
        for text in task["texts"]:
            for _ in range(task["n"]):
                s = list(text)
                for _ in range(rng.randint(1, 3)):
                    op = rng.random()
                    pos = rng.randrange(len(s) + 1)
                    if op < 0.4 and s:
                        del s[min(pos, len(s) - 1)]
                    elif op < 0.8:
                        s.insert(pos, rng.choice(alphabet))
                    elif s:
                        s[min(pos, len(s) - 1)] = rng.choice(alphabet)
                mut = "".join(s)
                evals[0] += 1
                st_, val = guarded(lambda: parse_any(mut), 10)
                distinct.add(mut)
                if st_ in ("timeout", "memory"):
                    viol.append({"key": "C15/parse/terminates[byte-mutation]", "clause": "parsing any string terminates", "detail": {"how": st_}, "input": {"text": mut}})
                if len(samples) < 1:
                    samples.append({"text": mut[:120], "outcome": st_ if st_ != "raised" else type(val).__name__})
    seen, uniq = set(), []
    for v in viol:
        if v["key"] not in seen:
            seen.add(v["key"])
            uniq.append(v)
    return {"evaluations": evals[0], "distinct": [hash(x) for x in distinct], "violations": uniq, "samples": samples}


def run(tier="quick", seed=0):
    cases = [c for c in corpus.archetypes(tier, seed)]
    texts = [c["text"] for c in cases]
    sys_texts = [c["text"] for c in corpus.systems(tier, seed)]
    tasks = [{"kind": "misuse", "seed": seed}]
    for i in range(0, len(texts), 6):
        tasks.append({"kind": "break", "texts": texts[i:i + 6], "seed": seed + i, "asts": {c["text"]: c["ast"] for c in cases[i:i + 6]}})
    n = 40 if tier == "quick" else 600
    allt = texts + sys_texts
    for i in range(0, len(allt), 6):
        tasks.append({"kind": "bytes", "texts": allt[i:i + 6], "seed": seed * 7 + i, "n": n})
    res = harness.run_tasks("monitor.drive_C15", "work", tasks, timeout=600 if tier == "quick" else 3000)
    out = harness.merge(res, rule="every archetype string x breaking operators (unbalanced branch / bracket, descriptor between atoms, unknown symbol, nested descriptor, "
                        "unknown distribution, transition list of wrong length, negative weight, text after mixture, percent out of range, negative mass) must raise; "
                        "ten misuses of generate must raise; random byte mutations (delete / insert / replace, 1-3 per string) must terminate within 10 s and 4 GB. "
                        "distinct = distinct broken strings")
    out["assumptions"] = ["bounded layer: only the generated strings; termination is decided by a 10 s alarm"]
    return out
