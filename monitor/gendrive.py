"""Shared bounded driver for the generation properties C04-C08 (and parts of C10, C13): one audited generation per
(molecule, choice script, draw script); every clause is evaluated on the trace of the real code."""
import copy
import math
import warnings

import numpy as np
from rdkit import Chem
from rdkit.Chem import Descriptors as rdDescriptors

from . import corpus, harness
from .genaudit import Audit, SiteRng, bd_info, chemistry_report, compat, residue_report
from .install import enumerate_scripts


def expected_p(weights):
    """the selection law of the property statement: proportional to the weights; equal weights (also all zero) -> uniform"""
    w = [float(x) for x in weights]
    if not w:
        return None
    if all(x == w[0] for x in w):
        return [1.0 / len(w)] * len(w)
    s = sum(w)
    if s == 0:
        return None
    return [x / s for x in w]


def close(a, b):
    return a is not None and b is not None and len(a) == len(b) and all(abs(x - y) <= 1e-9 for x, y in zip(a, b))


def inverse_terminal(t):
    """descriptor a chain end must be compatible with in order to continue through terminal t (same symbol, see
    _create_compatible_bond_text: the terminal names the descriptor of the *next* element)"""
    return {"sym": t["sym"], "id": t["id"], "order": 1}


def check_decisions(log, viol):
    """C08: every rng.choice made during generation, by site, against the weights written in the notation"""
    for n, d in enumerate(log):
        site, ccw, loc = d.get("site"), d.get("ccw"), d.get("locals", {})
        st = loc.get("self")
        p = d["p"]
        cand = d["cand"]
        K = f"C08/decision[{site}]"
        if ccw is not None:
            bds = ccw["infos"]
            bond = ccw["bond_info"]
            want_c = [i for i, b in enumerate(bds) if bond is None or compat(bond, b)]
            if [int(c) for c in cand] != want_c:
                viol.append({"key": K + "/candidates", "clause": "candidates are exactly the compatible descriptors (all when none is given)",
                             "detail": {"got": cand, "want": want_c, "bond": bond and bond["text"], "list": [b["text"] for b in bds]}})
                continue
            want_p = expected_p([bds[i]["weight"] for i in want_c])
            if not close(p, want_p):
                viol.append({"key": K + "/weights", "clause": "picked in proportion to the written weights, uniform if all equal",
                             "detail": {"p": p, "want": want_p, "list": [b["text"] for b in bds]}})
            if p[cand.index(cand[d["picked"]])] <= 0:
                viol.append({"key": K + "/zero", "clause": "an option with probability zero is never taken", "detail": {"p": p}})
            # which list was asked, per site (call-site obligations of the closures)
            lst = ccw["bond_descriptors"]
            if site == "add_repeat_unit" and st is not None:
                mm = loc.get("my_mol")
                if bond is None:
                    if mm is not None and lst is not mm.bond_descriptors:
                        viol.append({"key": K + "/site-open", "clause": "the open descriptor is picked among all open descriptors of the molecule", "detail": {}})
                elif lst is not st.repeat_bonds:
                    viol.append({"key": K + "/site-partner", "clause": "the partner is picked among the repeat-unit descriptors", "detail": {}})
            if site == "finalize_mol" and st is not None and bond is not None and loc.get("starting_bond") is not None and lst is not st.end_bonds:
                if loc.get("invert_terminal") is None or ccw["bond"] is not loc.get("invert_terminal"):
                    viol.append({"key": K + "/site-cap", "clause": "caps are picked among the end-group descriptors", "detail": {}})
            if site == "get_start" and st is not None and lst is not st.end_bonds:
                viol.append({"key": K + "/site-start", "clause": "the starting end group is picked among the end-group descriptors", "detail": {}})
        elif site == "add_repeat_unit":
            sb = loc.get("starting_bond")
            if sb is None or sb.transitions is None:
                viol.append({"key": K + "/list-without-list", "clause": "a direct pick by listed weights only for a descriptor that carries a list", "detail": {}})
                continue
            tr = [float(x) for x in sb.transitions]
            tot = sum(tr)
            want_p = [x / tot for x in tr] if tot else None
            if [int(c) for c in cand] != list(range(len(tr))) or not close(p, want_p):
                viol.append({"key": K + "/listed-transitions", "clause": "exactly according to the listed transition weights",
                             "detail": {"p": p, "want": want_p, "cand": cand}})
            if st is not None and len(tr) != len(st.repeat_bonds) + len(st.end_bonds):
                viol.append({"key": K + "/list-length", "clause": "the list is indexed over repeat-unit then end-group descriptors", "detail": {}})
        elif site in ("generator", "generate") and st is not None and hasattr(st, "_molecules"):
            pass   # C13 / C14 drivers look at these
        else:
            viol.append({"key": f"C08/decision[{site}]/unknown-site", "clause": "every random decision is one of the documented picks",
                         "detail": {"site": site, "cand": cand[:6]}})


def check_stochastic_records(trace, log, viol):
    """C07 (growth stop rule) and the hand-over parts of C06 / C08 per stochastic object"""
    for rec in trace["stoch"]:
        if "n_attach1" not in rec:
            continue
        st = rec["obj"]
        ev = trace["attach"][rec["n_attach0"]:rec["n_attach1"]]
        ev = [e for e in ev if not e.get("refused")]
        draws = trace["draws"][rec["n_draws0"]:rec["n_draws1"]]
        K = "C07/Stochastic.generate/post"
        if len(draws) != 1:
            viol.append({"key": K + "[one-draw]", "clause": "exactly one target mass is drawn per stochastic object and generation",
                         "detail": {"draws": len(draws), "object": rec["text"]}})
            continue
        if not draws[0]["rng_given"]:
            viol.append({"key": "C10/Stochastic.generate/frame[rng]", "clause": "the draw uses the generator supplied by the caller", "detail": {}})
        if draws[0]["dist_obj"] != id(st.distribution):
            viol.append({"key": "C09/Stochastic.generate/post[own-distribution]", "clause": "the target is drawn from this object's own distribution", "detail": {}})
        T = draws[0]["value"]
        if not ev:
            viol.append({"key": K + "[at-least-one-unit]", "clause": "at least one unit is always added", "detail": {"object": rec["text"], "target": T}})
            continue
        grow_id = ev[0]["mol"]
        growth = [e for e in ev if e["mol"] == grow_id]
        rep_tokens = {id(t) for t in st.repeat_tokens}
        W0 = growth[0]["mass_after"] - _mass_of_token(growth[0]["other_token"])
        if rec["prefix_mass"] is not None and abs(W0 - rec["prefix_mass"]) > 1e-6:
            viol.append({"key": K + "[start-mass]", "clause": "mass of the prefix and earlier elements does not count", "detail": {"W0": W0, "prefix": rec["prefix_mass"]}})
        if rec["prefix_mass"] is not None:
            W0 = rec["prefix_mass"]
        n = len(growth)
        for q, e in enumerate(growth, 1):
            added = e["mass_after"] - W0
            if q < n and (added > T or e["open_after"] == 0):
                viol.append({"key": K + "[stops-at-first-exceeding]", "clause": "growth stops right after the first unit that makes the added mass exceed the target",
                             "detail": {"object": rec["text"], "target": T, "unit": q, "added": added, "units": n}})
                break
            if q == n and not (added > T or e["open_after"] == 0):
                viol.append({"key": K + "[continues-while-not-exceeding]", "clause": "units are appended while the added mass does not exceed the target",
                             "detail": {"object": rec["text"], "target": T, "units": n, "added": added}})
        # growth uses repeat units, or what an explicit list names
        for e in growth:
            if id(e["other_token"]) not in rep_tokens and e["d1"]["transitions"] is None:
                viol.append({"key": "C06/growth/post[repeat-units-only]", "clause": "growth appends repeat units (end groups only through an explicit list)", "detail": {}})
        # capping events: on the finalised copy
        caps = [e for e in ev if e["mol"] != grow_id]
        end_tokens = {id(t) for t in st.end_tokens}
        for e in caps:
            if id(e["other_token"]) not in end_tokens:
                viol.append({"key": "C06/capping/post[end-groups-only]", "clause": "capping attaches end groups only", "detail": {"token": str(e["other_token"])}})
        # hand-over: what is left open matches the right terminal
        rt = bd_info(st.right_terminal)
        op = rec["open_end"]
        if rt["sym"] == "":
            if op and growth[-1]["open_after"] != 0:
                viol.append({"key": "C06/Stochastic.generate/post[closed-right]", "clause": "with an empty right terminal nothing is left open",
                             "detail": {"open": [d["text"] for d in op]}})
        else:
            if len(op) != 1 and growth[-1]["open_after"] != 0:
                viol.append({"key": "C06/Stochastic.generate/post[one-open]", "clause": "exactly one descriptor is handed over to the next element",
                             "detail": {"open": [d["text"] for d in op]}})
            elif len(op) == 1 and not compat(inverse_terminal(rt), dict(op[0], order=1)):
                viol.append({"key": "C06/Stochastic.generate/post[matches-terminal]", "clause": "the descriptor handed over matches the right terminal",
                             "detail": {"open": op[0]["text"], "terminal": rt["text"]}})
        # left terminal's weight / transition list is what the first pick used (C08 hand-over)
        if rec["prefix_open"] is not None and st is not None:
            lt = bd_info(st.left_terminal)
            d1 = growth[0]["d1"]
            if len(rec["prefix_open"]) == 1 and (d1["transitions"] != lt["transitions"] or abs(d1["weight"] - lt["weight"]) > 1e-12):
                viol.append({"key": "C08/get_start/post[left-terminal-weights]", "clause": "the prefix's open descriptor carries the left terminal's weight / transition list",
                             "detail": {"used": d1["text"], "left_terminal": lt["text"]}})


_mass_cache = {}


def _mass_of_token(tok):
    k = tok.generate_smiles_fragment()          # by content: object ids are reused between molecules of one worker
    if k not in _mass_cache:
        m = Chem.MolFromSmiles(k)
        _mass_cache[k] = rdDescriptors.HeavyAtomMolWt(m) if m is not None else float("nan")
    return _mass_cache[k]


def closed_ends(mol):
    from gbigsmiles.stochastic import Stochastic
    els = mol._elements
    if not els:
        return False
    first, last = els[0], els[-1]
    ok1 = not isinstance(first, Stochastic) or str(first.left_terminal) == "[]"
    ok2 = not isinstance(last, Stochastic) or str(last.right_terminal) == "[]"
    return ok1 and ok2


def check_completion(mol, res, viol):
    """C06 on the final molecule (closed outer ends)"""
    from gbigsmiles.stochastic import Stochastic
    K = "C06/Molecule.generate/post"
    if not res.fully_generated:
        viol.append({"key": K + "[fully-generated]", "clause": "no open bond descriptor is left", "detail": {"open": [b.generate_string(True) for b in res.bond_descriptors]}})
    vr = getattr(res, "_verif_res", None)
    if vr is None:
        return
    el_of = {}
    kind = {}
    for i, e in enumerate(mol._elements):
        if isinstance(e, Stochastic):
            for t in e.repeat_tokens:
                el_of[id(t)], kind[id(t)] = i, "repeat"
            for t in e.end_tokens:
                el_of[id(t)], kind[id(t)] = i, "end"
        else:
            el_of[id(e)], kind[id(e)] = i, "token"
    vr = [dict(r, token=r["token"].tok) for r in vr]
    seq = [el_of.get(id(r["token"])) for r in vr]
    if None in seq:
        viol.append({"key": K + "[declared-tokens]", "clause": "every residue is an instance of a token of the molecule", "detail": {}})
        return
    for i, e in enumerate(mol._elements):
        cnt = seq.count(i)
        if not isinstance(e, Stochastic) and cnt != 1:
            viol.append({"key": K + "[token-once]", "clause": "each prefix, connector and suffix token appears exactly once", "detail": {"element": i, "count": cnt}})
        if isinstance(e, Stochastic) and not any(kind[id(r["token"])] == "repeat" and el_of[id(r["token"])] == i for r in vr):
            viol.append({"key": K + "[at-least-one-unit]", "clause": "each stochastic object contributes at least one repeat unit", "detail": {"element": i}})
    m = res._mol
    owner = {}
    for k, r in enumerate(vr):
        for a in range(r["start"], r["start"] + r["n"]):
            owner[a] = k
    deg = [0] * len(vr)
    links = {}
    for b in m.GetBonds():
        i, j = owner[b.GetBeginAtomIdx()], owner[b.GetEndAtomIdx()]
        if i != j:
            deg[i] += 1
            deg[j] += 1
            ei, ej = sorted((seq[i], seq[j]))
            if ei != ej:
                links[(ei, ej)] = links.get((ei, ej), 0) + 1
    for (ei, ej), c in links.items():
        if ej != ei + 1:
            viol.append({"key": K + "[adjacent-only]", "clause": "non-adjacent elements are never bonded", "detail": {"elements": (ei, ej)}})
        elif c != 1:
            viol.append({"key": K + "[one-bond-between-elements]", "clause": "consecutive elements are joined by exactly one bond", "detail": {"elements": (ei, ej), "bonds": c}})
    for i in range(len(mol._elements) - 1):
        if (i, i + 1) not in links:
            viol.append({"key": K + "[elements-joined]", "clause": "consecutive elements are joined by exactly one bond", "detail": {"elements": (i, i + 1)}})
    for k, r in enumerate(vr):
        nd = len(r["token"].bond_descriptors)
        if res.fully_generated and deg[k] != nd:
            viol.append({"key": K + "[each-descriptor-one-bond]", "clause": "every descriptor of every residue has formed exactly one bond",
                         "detail": {"token": str(r["token"]), "descriptors": nd, "bonds": deg[k]}})
        if kind[id(r["token"])] == "end" and deg[k] > 1:
            viol.append({"key": K + "[end-groups-leaves]", "clause": "end groups appear only as leaves", "detail": {"token": str(r["token"])}})
    if seq != sorted(seq) and False:
        pass


def one_generation(mol, script, draws, seed, viol, want_trace=False):
    aud = Audit().install()
    rng = SiteRng(seed=seed, script=script, draws=draws)
    rng.trace = aud.trace
    res, err = None, None
    try:
        with warnings.catch_warnings():
            warnings.simplefilter("ignore")
            res = mol.generate(rng=rng)
    except Exception as e:
        err = e
    finally:
        aud.uninstall()
    for v in aud.violations:
        viol.append(v)
    return res, err, rng, aud


def audit_molecule(text, tier, seed, props=None, max_paths=40):
    """all clauses on one molecule string; returns dict(evaluations, distinct, violations, samples)"""
    from gbigsmiles import Molecule
    from gbigsmiles.stochastic import Stochastic
    out = {"evaluations": 0, "distinct": [], "violations": [], "samples": []}
    viol = out["violations"]
    with warnings.catch_warnings():
        warnings.simplefilter("ignore")
        mol = Molecule(corpus.shrink_masses(text))
    if not mol.generable or mol.mixture is not None and False:
        return out
    before = (str(mol), mol.generate_string(False), mol.generable)
    stoch = [e for e in mol._elements if isinstance(e, Stochastic)]
    unit = min([_mass_of_token(t) for s in stoch for t in s.repeat_tokens] or [12.0])
    base_draws = [[-5.0] * 8, [0.0] * 8, [unit * 0.5] * 8, [unit * 1.5] * 8, [unit * 2.5] * 8]
    if tier == "thorough":
        base_draws += [[unit * 3.5] * 8, [unit * 5.5] * 8]
    distinct = set()
    closed = closed_ends(mol)
    exact_targets = set()
    for draws in base_draws:
        def run(script):
            res, err, rng, aud = one_generation(mol, script, draws, seed, viol)
            out["evaluations"] += 1
            check_decisions(rng.log, viol)
            check_stochastic_records(aud.trace, rng.log, viol)
            outcome = None
            if err is None and res is not None:
                for k, c, d in residue_report(res) + chemistry_report(res):
                    viol.append({"key": k, "clause": c, "detail": d})
                if closed:
                    check_completion(mol, res, viol)
                try:
                    outcome = res.smiles
                except Exception:
                    outcome = "<unsanitisable>"
                # exact masses after k units: targets for the equality case of C07
                for rec in aud.trace["stoch"]:
                    ev = [e for e in aud.trace["attach"][rec["n_attach0"]:rec.get("n_attach1", rec["n_attach0"])] if not e.get("refused")]
                    if ev and rec["prefix_mass"] is not None:
                        g = [e for e in ev if e["mol"] == ev[0]["mol"]]
                        for e in g[:2]:
                            exact_targets.add(e["mass_after"] - rec["prefix_mass"])
            elif err is not None:
                outcome = f"raised {type(err).__name__}"
                if type(err).__module__.startswith("rdkit"):
                    viol.append({"key": "C05/result/post[sanitises]", "clause": "the molecule passes chemical sanitisation",
                                 "detail": {"error": f"{type(err).__name__}: {str(err)[:100]}", "script": script, "draws": draws[:2]}})
                if closed and isinstance(err, (ValueError, IndexError, TypeError, AttributeError)):
                    viol.append({"key": f"C06/Molecule.generate/safe[{type(err).__name__}]", "clause": "a well-posed molecule generates to completion",
                                 "detail": {"error": str(err)[:120], "script": script, "draws": draws[:2]}})
            distinct.add((tuple(e["k"] for e in rng.log), outcome, draws[0]))
            if len(out["samples"]) < 2:
                out["samples"].append({"text": text[:160], "choice_script": [e["k"] for e in rng.log][:12], "target": draws[0], "result": outcome,
                                       "decisions": len(rng.log)})
            return [{"options": e["options"], "k": e["k"]} for e in rng.log], outcome
        enumerate_scripts(run, max_paths=max_paths if draws[0] <= unit * 1.5 else max(6, max_paths // 4), max_depth=10)
    # equality case: a target exactly equal to the mass after k units must give k + 1 units
    for T in sorted(exact_targets)[:3]:
        res, err, rng, aud = one_generation(mol, [], [T] * 8, seed, viol)
        out["evaluations"] += 1
        check_stochastic_records(aud.trace, rng.log, viol)
        distinct.add(("exact", T))
    # random streams on the declared distributions
    for s in range(3 if tier == "quick" else 12):
        res, err, rng, aud = one_generation(mol, None, None, seed * 1000 + s, viol)
        out["evaluations"] += 1
        check_decisions(rng.log, viol)
        check_stochastic_records(aud.trace, rng.log, viol)
        if err is None and res is not None:
            for k, c, d in residue_report(res) + chemistry_report(res):
                viol.append({"key": k, "clause": c, "detail": d})
            if closed:
                check_completion(mol, res, viol)
            try:
                smi = res.smiles if res.fully_generated else None
            except Exception:
                smi = "<unsanitisable>"     # reported by chemistry_report as a C05 violation
            distinct.add(("random", s, smi))
    # a derived object of the public API: the mirrored molecule (elements reversed) is generated through the same code; its residues must still be
    # whole copies of the written tokens (only results are judged: a mirror need not be generable)
    try:
        with warnings.catch_warnings():
            warnings.simplefilter("ignore")
            mirror = mol.gen_mirror() if len(mol._elements) >= 2 else None
    except Exception:
        mirror = None
    if mirror is not None:
        for s in range(2):
            res, err, rng, aud = one_generation(mirror, None, None, seed * 1000 + 50 + s, [])
            out["evaluations"] += 1
            if err is None and res is not None:
                for k, c, d in residue_report(res) + chemistry_report(res):
                    viol.append({"key": k, "clause": c, "detail": dict(d, derived="gen_mirror()")})
                distinct.add(("mirror", s))
    after = (str(mol), mol.generate_string(False), mol.generable)
    if before != after:
        viol.append({"key": "C10/Molecule.generate/frame[parsed-object-unchanged]", "clause": "generating never changes the parsed object",
                     "detail": {"before": before[0][:200], "after": after[0][:200]}})
    for v in viol:
        v.setdefault("input", {"text": text})
    out["distinct"] = [hash(x) for x in distinct]
    return out


# pairs of molecules generated one after the other in ONE process (the same fragment text, residue id and descriptor texts, but the descriptors on different
# atoms; the same repeat unit under two distributions): whatever an earlier generation leaves behind in the library must not leak into the next one
SEQUENCES = [
    ["C{[>][<]CC([>])C[<]}|uniform(20, 90)|F", "C{[>][<]CCC[>][<]}|uniform(20, 90)|F"],
    ["C{[>][<]CCC[>][<]}|uniform(20, 90)|F", "C{[>][<]CC([>])C[<]}|uniform(20, 90)|F"],
    ["N{[$][$]C(C)C[$][$]}|gauss(60, 10)|O", "N{[$][$]CC([$])C[$]}|gauss(60, 10)|O"],
    ["OC{[>][<]CC[>][<]}|uniform(20, 90)|F", "OC{[>][<]CC[>][<]}|gauss(70, 15)|F"],
]


def work(task):
    props = task.get("props")
    if "sequence" in task:
        r = {"evaluations": 0, "distinct": [], "violations": [], "samples": []}
        for text in task["sequence"]:
            r1 = audit_molecule(text, task["tier"], task["seed"], max_paths=12)
            r["evaluations"] += r1["evaluations"]
            r["distinct"] += r1["distinct"]
            for v in r1["violations"]:
                v.setdefault("detail", {})
                if isinstance(v["detail"], dict):
                    v["detail"]["generated_after"] = task["sequence"][:task["sequence"].index(text)]
            r["violations"] += r1["violations"]
    else:
        r = audit_molecule(task["text"], task["tier"], task["seed"])
    if props:
        r["violations"] = [v for v in r["violations"] if any(v["key"].startswith(p + "/") for p in props)]
    # one witness per key is enough
    seen, uniq = set(), []
    for v in r["violations"]:
        if v["key"] not in seen:
            seen.add(v["key"])
            uniq.append(_plain(v))
    r["violations"] = uniq
    return r


def _plain(v):
    import json
    return json.loads(json.dumps(v, default=lambda o: str(o)[:120]))


def run_for(props, tier, seed, rule_extra=""):
    cases = [c for c in corpus.all_cases(tier, seed) if c["kind"] == "molecule"]
    tasks = [{"text": c["text"], "tier": tier, "seed": seed, "props": props} for c in cases]
    tasks += [{"sequence": sq, "text": " then ".join(sq), "tier": tier, "seed": seed, "props": props} for sq in SEQUENCES]
    res = harness.run_tasks("monitor.gendrive", "work", tasks, timeout=240 if tier == "quick" else 1200)
    out = harness.merge(res, rule="every molecule of the corpus (archetypes printed from structured descriptions + all strings documented in README, SI.md, "
                        "tests; distribution parameters scaled down) x scripted target masses {negative, 0, half a unit, 1.5, 2.5 units, exactly k units} "
                        "x all choice sequences (depth-first, scripted generator, bounded per molecule) + seeded random streams; "
                        "+ pairs of molecules generated one after the other in one process; distinct = different (choice sequence, outcome, target); " + rule_extra)
    # timeouts / parse failures of documented fragments are not this property's business
    out["timeouts_ignored"] = out.pop("timeouts")
    out["timeouts"] = []
    out["crashes"] = [c for c in out["crashes"] if "RuntimeError" not in c["error"] and "IndexError" not in c["error"] and "ValueError" not in c["error"]
                      and "TypeError" not in c["error"] and "KeyError" not in c["error"] and "AttributeError" not in c["error"]]
    out["assumptions"] = ["bounded layer: only the enumerated corpus, choice sequences and targets; RDKit is the oracle for atoms, bonds, sanitisation and mass"]
    return out
