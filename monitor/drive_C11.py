"""Bounded layer for C11: each distribution object against the documented law (monitor/distlaw.py) on parameter grids:
text reproduces parameters, unknown names rejected, probabilities non-negative and equal to the documented mass / density,
interval = cdf difference (through the real RememberAdd), normalisation by deterministic summation / quadrature,
draws at scripted quantiles are finite, in the support and are that quantile of the same law; documented mean."""
import math
import warnings

import numpy as np

from . import distlaw, harness


def rel(a, b, tol=1e-6):
    return abs(a - b) <= tol * max(1.0, abs(a), abs(b))


def check_case(name, params, tier, viol):
    import gbigsmiles
    from gbigsmiles.distribution import get_distribution
    from gbigsmiles.mol_prob import RememberAdd
    text = distlaw.text_of(name, params)
    inp = {"distribution": text}
    ref = distlaw.REF[name](*params)
    K = f"C11/{distlaw.CLASS[name]}"
    evals = 0
    # schulz_zimm with Mw >= 2 Mn (z <= 1): the documented formula gives mass to M = 0 (known finding, DESIGN 6); its violations carry their own key
    TAG = "[Mw>=2Mn]" if name == "schulz_zimm" and params[0] >= 2 * params[1] else ""
    with warnings.catch_warnings():
        warnings.simplefilter("ignore")
        d = get_distribution(text)
        if type(d).__name__ != distlaw.CLASS[name]:
            viol.append({"key": "C11/get_distribution/post[family]", "clause": "the named family is constructed", "detail": {"got": type(d).__name__}, "input": inp})
            return 1
        got = [float(getattr(d, n)) for n in distlaw.PARAM_NAMES[name]]
        if any(not rel(g, float(w), 1e-12) for g, w in zip(got, params)):
            viol.append({"key": K + ".__init__/post[parameters]", "clause": "parameters as written, in the documented order", "detail": {"got": got, "want": params}, "input": inp})
        # text form reproduces the parameters
        d2 = get_distribution(d.generate_string(True))
        got2 = [float(getattr(d2, n)) for n in distlaw.PARAM_NAMES[name]]
        if type(d2) is not type(d) or got2 != got or d.generate_string(False) != "":
            viol.append({"key": K + ".generate_string/post[reproduces]", "clause": "the text form reproduces family and parameters",
                         "detail": {"text": d.generate_string(True), "got": got2, "want": got}, "input": inp})
        grid = ref.grid()
        # point probabilities
        for x in grid:
            p = float(d.prob_mw(x))
            want = getattr(ref, 'documented', ref.pmf)(x) if ref.discrete else ref.pdf(x)
            evals += 1
            if p != p:
                viol.append({"key": K + ".prob_mw/post[is-a-number]", "clause": "probabilities are numbers (non-negative)", "detail": {"x": x, "got": "nan"}, "input": inp})
                break
            if not (p >= 0) or not rel(p, want, 1e-6) and abs(p - want) > 1e-12:
                viol.append({"key": K + ".prob_mw/post[mass]" + TAG, "clause": "probabilities are non-negative and equal the documented mass / density",
                             "detail": {"x": x, "got": p, "want": want}, "input": inp})
                break
        # intervals through the real RememberAdd
        for i in range(len(grid) - 1):
            r = RememberAdd(0.0)
            r += grid[i]
            r += grid[i + 1] - grid[i]
            if not (rel(r.previous, grid[i], 1e-12) and rel(r.value, grid[i + 1], 1e-12)):
                viol.append({"key": "C11/RememberAdd.__iadd__/post", "clause": "previous' = value, value' = value + x", "detail": {"value": r.value, "previous": r.previous}, "input": inp})
            p = float(d.prob_mw(r))
            want = ref.interval(grid[i], grid[i + 1])
            evals += 1
            if p != p:
                viol.append({"key": K + ".prob_mw/post[is-a-number]", "clause": "probabilities are numbers (non-negative)", "detail": {"interval": (grid[i], grid[i + 1]), "got": "nan"}, "input": inp})
                break
            if not rel(p, want, 1e-6) and abs(p - want) > 1e-9:
                viol.append({"key": K + ".prob_mw/post[interval]" + TAG, "clause": "the probability of a mass interval is the cdf difference of this law with its own parameters",
                             "detail": {"interval": (grid[i], grid[i + 1]), "got": p, "want": want}, "input": inp})
                break
        # the same object asked again: intervals that share an end point, in another order (no memory between queries)
        for i in range(len(grid) - 2):
            for lo, hi in ((grid[i], grid[i + 2]), (grid[i + 1], grid[i + 2]), (grid[i], grid[i + 1]), (grid[i], grid[i + 2])):
                r = RememberAdd(lo)
                r += hi - lo
                p = float(d.prob_mw(r))
                want = ref.interval(lo, hi)
                evals += 1
                if not rel(p, want, 1e-6) and abs(p - want) > 1e-9:
                    viol.append({"key": K + ".prob_mw/post[interval]" + TAG, "clause": "the probability of a mass interval is the cdf difference of this law with its own parameters",
                                 "detail": {"interval": (lo, hi), "got": p, "want": want, "note": "repeated queries on one object"}, "input": inp})
                    break
        # normalisation, by the library's own numbers
        if ref.discrete:
            hi = int(ref.mean * 12 + 60)
            lo = 0
            tot = math.fsum(float(d.prob_mw(k)) for k in range(lo, hi + 1)) if hi < 40000 else None
            mean = math.fsum(k * float(d.prob_mw(k)) for k in range(lo, hi + 1)) if tot is not None else None
        else:
            a, b = (ref.mu - 10 * ref.sigma, ref.mu + 10 * ref.sigma) if name == "gauss" else ((ref.low - 1, ref.high + 1) if name == "uniform" else (1e-9, ref.m * math.exp(9 * math.sqrt(math.log(ref.d)))))
            n = 40001
            # the log-normal density is concentrated near its mode and has a long tail: a geometric grid (a uniform one with 40001 points left a 0.3 % quadrature
            # error for log_normal(20, 2.5), a false alarm of this check)
            xs = np.geomspace(1e-6, b, n) if name == "log_normal" else np.linspace(a, b, n)
            if name == "uniform":
                r1, r2 = RememberAdd(0.0), None
                r = RememberAdd(a)
                r += (b - a)
                tot = float(d.prob_mw(r))
                mean = None
            else:
                ys = np.array([float(d.prob_mw(float(x))) for x in xs])
                tot = float(np.trapezoid(ys, xs))
                mean = float(np.trapezoid(ys * xs, xs))
        evals += 1
        # schulz_zimm with 1 < z <= 2: the density's slope at 0 does not vanish and its values on the integers sum to 1 - z^(z+1) / (12 Gamma(z+1) Mn^2) (known finding)
        TAGN = "[Mw>=1.5Mn]" if name == "schulz_zimm" and not TAG and params[0] >= 1.5 * params[1] else TAG
        if tot is not None and abs(tot - 1.0) > 2e-4:
            viol.append({"key": K + ".prob_mw/post[normalised]" + TAGN, "clause": "probabilities sum / integrate to 1 over the support", "detail": {"total": tot}, "input": inp})
        if mean is not None and abs(mean - ref.mean) > 0.01 * max(1.0, abs(ref.mean)) + (0.6 if name == "schulz_zimm" else 0):
            viol.append({"key": K + ".prob_mw/post[mean]" + TAG, "clause": "the law has the documented mean", "detail": {"mean": mean, "want": ref.mean}, "input": inp})
        # draws at scripted quantiles
        qs = [1e-9, 1e-4, 0.01, 0.1, 0.25, 0.5, 0.75, 0.9, 0.99, 1 - 1e-6] if tier == "quick" else \
            [1e-9, 1e-6, 1e-4, 0.001] + [i / 40 for i in range(1, 40)] + [0.999, 1 - 1e-6, 1 - 1e-9, 1 - 1e-12]
        for u in qs:
            evals += 1
            try:
                x = float(d.draw_mw(distlaw.QuantileRng(u)))
            except Exception as e:
                if harness.raised_in_checker(e):
                    raise
                tag = "[scipy-inverse-search]" if "updating stopped" in str(e) else ""
                viol.append({"key": K + f".draw_mw/safe[{type(e).__name__}]{tag}", "clause": "random draws are finite",
                             "detail": {"quantile": u, "error": str(e)[:100]}, "input": inp})
                break
            if name == "poisson":
                if not (math.isfinite(x) and x >= 0 and x == int(x)):
                    viol.append({"key": K + ".draw_mw/post[support]" + TAG, "clause": "draws lie in the support", "detail": {"draw": x}, "input": inp})
                continue
            lo_s, hi_s = ref.support
            if not math.isfinite(x) or x < lo_s - 1e-9 or x > hi_s + 1e-9:
                viol.append({"key": K + ".draw_mw/post[support]" + TAG, "clause": "draws are finite and lie in the support", "detail": {"quantile": u, "draw": x}, "input": inp})
                break
            if ref.discrete:
                ok = x == int(x) and ref.cdf(x - 1) <= u + 1e-7 and u <= ref.cdf(x) + 1e-7
            else:
                ok = abs(ref.cdf(x) - u) <= 1e-6
            if not ok:
                viol.append({"key": K + ".draw_mw/post[law]" + TAG, "clause": "draws follow the same law: the u-quantile of the scripted stream is the u-quantile of the documented cdf",
                             "detail": {"quantile": u, "draw": x, "cdf(draw)": ref.cdf(x), "cdf(draw-1)": ref.cdf(x - 1) if ref.discrete else None}, "input": inp})
                break
        if name == "poisson":
            rng = np.random.default_rng(5)
            xs = [float(d.draw_mw(rng)) for _ in range(4000)]
            m = sum(xs) / len(xs)
            if abs(m - ref.mean) > 6.5 * math.sqrt(ref.mean / len(xs)) + 1e-9:
                viol.append({"key": K + ".draw_mw/post[mean]" + TAG, "clause": "draws have the documented mean", "detail": {"mean": m, "want": ref.mean}, "input": inp})
    return evals


def check_pair(name, pa, pb, viol):
    """two objects of one family with different parameters alive in one process, asked alternately about the SAME masses: each answers with its own law"""
    from gbigsmiles.distribution import get_distribution
    from gbigsmiles.mol_prob import RememberAdd
    evals = 0
    tag = lambda p: "[Mw>=2Mn]" if name == "schulz_zimm" and p[0] >= 2 * p[1] else ""
    with warnings.catch_warnings():
        warnings.simplefilter("ignore")
        objs = [(get_distribution(distlaw.text_of(name, p)), distlaw.REF[name](*p), p) for p in (pa, pb)]
        grid = sorted(set(objs[0][1].grid()[::3]) | set(objs[1][1].grid()[::3]))
        for rnd in range(2):
            for i in range(len(grid) - 1):
                for d, ref, p in (objs if rnd == 0 else objs[::-1]):
                    r = RememberAdd(0.0)
                    r += grid[i + 1]
                    got = float(d.prob_mw(r))
                    want = ref.interval(0.0, grid[i + 1])
                    pt = float(d.prob_mw(grid[i]))
                    wpt = getattr(ref, 'documented', ref.pmf)(grid[i]) if ref.discrete else ref.pdf(grid[i])
                    evals += 2
                    if (not rel(got, want, 1e-6) and abs(got - want) > 1e-9) or (not rel(pt, wpt, 1e-6) and abs(pt - wpt) > 1e-12):
                        viol.append({"key": f"C11/{distlaw.CLASS[name]}.prob_mw/post[interval]" + tag(p), "clause": "the probability of a mass interval is the cdf difference of this law with its own parameters",
                                     "detail": {"interval": (0.0, grid[i + 1]), "got": got, "want": want, "point": (grid[i], pt, wpt),
                                                "note": f"two live objects of the family: {distlaw.text_of(name, pa)} and {distlaw.text_of(name, pb)}"},
                                     "input": {"distribution": distlaw.text_of(name, p), "other_object": distlaw.text_of(name, pb if p == pa else pa)}})
                        return evals
    return evals


def work(task):
    viol, evals, distinct, samples = [], 0, set(), []
    for name, pa, pb in task.get("pairs", []):
        try:
            evals += check_pair(name, tuple(pa), tuple(pb), viol)
        except Exception as e:
            if harness.raised_in_checker(e):
                raise
            viol.append({"key": f"C11/{distlaw.CLASS[name]}/safe[{type(e).__name__}]", "clause": "a valid distribution can be constructed and evaluated",
                         "detail": {"error": str(e)[:120], "mode": "two live objects"}, "input": {"distribution": distlaw.text_of(name, pa)}})
    for name, params in task["cases"]:
        try:
            evals += check_case(name, tuple(params), task["tier"], viol)
        except Exception as e:
            if harness.raised_in_checker(e):
                raise
            viol.append({"key": f"C11/{distlaw.CLASS[name]}/safe[{type(e).__name__}]", "clause": "a valid distribution can be constructed and evaluated",
                         "detail": {"error": str(e)[:120]}, "input": {"distribution": distlaw.text_of(name, params)}})
        distinct.add((name, tuple(params)))
        samples.append({"distribution": distlaw.text_of(name, params)})
    if task.get("names"):
        from gbigsmiles.distribution import get_distribution
        for bad in ("weibull(1, 2)", "normal(3, 4)", "gaus(1, 2)", "schulz-zimm(4, 3)"):
            evals += 1
            try:
                get_distribution(bad)
                viol.append({"key": "C11/get_distribution/must-raise[unknown-name]", "clause": "an unknown distribution name is rejected", "detail": {}, "input": {"distribution": bad}})
            except RuntimeError:
                pass
            except Exception as e:
                pass
        # zero-width gauss: a point mass
        from gbigsmiles.mol_prob import RememberAdd
        d = get_distribution("gauss(100, 0)")
        for prev, val, want in ((0.0, 100.0, 1.0), (0.0, 99.0, 0.0), (100.0, 150.0, 0.0), (99.5, 100.5, 1.0)):
            r = RememberAdd(prev)
            r += val - prev
            evals += 1
            try:
                p = float(d.prob_mw(r))
                if abs(p - want) > 1e-9:
                    viol.append({"key": "C11/Gauss.prob_mw/post[interval]", "clause": "interval probability = cdf difference (point mass for sigma = 0)",
                                 "detail": {"interval": (prev, val), "got": p, "want": want}, "input": {"distribution": "gauss(100, 0)"}})
            except Exception as e:
                viol.append({"key": f"C11/Gauss.prob_mw/safe[{type(e).__name__}]", "clause": "interval probability is defined", "detail": {"error": str(e)[:80]}, "input": {"distribution": "gauss(100, 0)"}})
        # known small-a region of flory_schulz (scipy's generic inverse search)
        for a, us in ((0.01, (0.245, 0.5)), (0.05, (0.115, 0.125, 0.955))):
            d = get_distribution(f"flory_schulz({a})")
            for u in us:
                evals += 1
                try:
                    float(d.draw_mw(distlaw.QuantileRng(u)))
                except RuntimeError as e:
                    viol.append({"key": "C11/FlorySchulz.draw_mw/safe[RuntimeError][scipy-inverse-search]", "clause": "random draws are finite",
                                 "detail": {"a": a, "quantile": u, "error": str(e)[:80]}, "input": {"distribution": f"flory_schulz({a})"}})
    seen, uniq = set(), []
    for v in viol:
        if v["key"] not in seen:
            seen.add(v["key"])
            uniq.append(v)
    return {"evaluations": evals, "distinct": [hash(x) for x in distinct], "violations": uniq, "samples": samples[:2]}


def run(tier="quick", seed=0):
    cases = distlaw.CASES[tier]
    tasks = [{"cases": [c], "tier": tier} for c in cases] + [{"cases": [], "tier": tier, "names": True}]
    by_family = {}
    for n, p in cases:
        by_family.setdefault(n, []).append(p)
    tasks += [{"cases": [], "tier": tier, "pairs": [(n, ps[i], ps[i + 1])]} for n, ps in by_family.items() for i in range(len(ps) - 1)]
    res = harness.run_tasks("monitor.drive_C11", "work", tasks, timeout=600 if tier == "quick" else 2400)
    from . import purecheck
    res += harness.run_tasks("monitor.purecheck", "work", purecheck.law_tasks("C11", tier), timeout=600)
    out = harness.merge(res, rule="(family, parameters) grid x point grid x scripted quantile grid; documented law re-implemented independently "
                        "(monitor/distlaw.py) as oracle; the three custom mass / density functions against the ensures clause of their contract on an argument grid (mass 0, z == 1, z < 1); pairs of live objects of one family with different parameters asked alternately about the same masses; "
                        "distinct = (family, parameters)")
    out["assumptions"] = ["bounded layer: only the parameter / quantile grids; normalisation decided by finite summation / trapezoid quadrature (2e-4)",
                          "'draws follow the law' is decided at scripted quantiles of scipy's inverse-cdf sampler, not statistically (poisson: mean of 4000 seeded draws)"]
    return out
