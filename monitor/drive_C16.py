"""Bounded layer for C16: the reaction graph against (a) its own normalisation claim at every descriptor node and
(b) the generator: for every partner pick observed in enumerated generations of the same molecule, the graph's edge from the
open descriptor to each candidate carries exactly the probability the generator used for that pick."""
import warnings

import numpy as np

from . import corpus, harness
from .genaudit import Audit, SiteRng, bd_info, compat
from .install import enumerate_scripts


def notation_descriptor(copy_bd, molgen):
    """the parsed descriptor a MolGen descriptor was copied from (through the residue that carries it)"""
    vr = getattr(molgen, "_verif_res", None)
    if vr is None or copy_bd.node_idx >= len(vr):
        return None
    tok = vr[copy_bd.node_idx]["token"].tok
    for b in tok.bond_descriptors:
        if b.descriptor_num == copy_bd.descriptor_num and b.descriptor == copy_bd.descriptor:
            return b
    return None


class GraphRng(SiteRng):
    """additionally resolves, at the moment of each pick, which parsed descriptors the decision is about"""

    def choice(self, a, size=None, replace=True, p=None, axis=0, shuffle=True):
        r = super().choice(a, size=size, replace=replace, p=p, axis=axis, shuffle=shuffle)
        if size is None and self.log:
            d = self.log[-1]
            ccw, loc, site = d.get("ccw"), d.get("locals", {}), d.get("site")
            d["edge_kind"], d["src"], d["dst"] = None, None, None
            try:
                if ccw is not None and ccw["bond"] is not None:
                    st = loc.get("self")
                    mm = loc.get("my_mol") if site != "generate" else loc.get("prefix")
                    src = notation_descriptor(ccw["bond"], mm) if mm is not None else None
                    lst = ccw["bond_descriptors"]
                    if site == "add_repeat_unit" and st is not None and lst is st.repeat_bonds:
                        own = src is not None and any(src in t.bond_descriptors for t in st.repeat_tokens + st.end_tokens)
                        d["edge_kind"], d["src"], d["dst"] = ("prob" if own else "trans_prob"), src, [lst[int(c)] for c in d["cand"]]
                    elif site == "finalize_mol" and st is not None and lst is st.end_bonds:
                        d["edge_kind"], d["src"], d["dst"] = "term_prob", src, [lst[int(c)] for c in d["cand"]]
                    elif site == "generate" and st is not None and hasattr(st, "atoms"):
                        # SmilesToken.generate: the candidates are copies of the token's own descriptors, same order
                        d["edge_kind"], d["src"], d["dst"] = "trans_prob", src, [st.bond_descriptors[int(c)] for c in d["cand"]]
                elif ccw is None and site == "add_repeat_unit":
                    st, sb, mm = loc.get("self"), loc.get("starting_bond"), loc.get("my_mol")
                    if st is not None and sb is not None and mm is not None:
                        allb = list(st.repeat_bonds) + list(st.end_bonds)
                        d["edge_kind"], d["src"], d["dst"] = "prob", notation_descriptor(sb, mm), [allb[int(c)] if int(c) < len(allb) else None for c in d["cand"]]
            except Exception:
                pass
        return r


def check_graph(mol, text, tier, viol):
    from gbigsmiles.bond import BondDescriptor
    from gbigsmiles.stochastic import Stochastic
    inp = {"text": text}
    K = "C16/Molecule.gen_reaction_graph/post"
    with warnings.catch_warnings():
        warnings.simplefilter("ignore")
        G = mol.gen_reaction_graph()
    evals = 1
    # nodes: one per token and per descriptor of a token
    tokens, descs = [], []
    for e in mol._elements:
        ts = (e.repeat_tokens + e.end_tokens) if isinstance(e, Stochastic) else [e]
        for t in ts:
            tokens.append(t)
            descs += list(t.bond_descriptors)
    nodes = list(G.nodes())
    if len(nodes) != len(tokens) + len(descs) or any(t not in G for t in tokens) or any(b not in G for b in descs):
        viol.append({"key": K + "[nodes]", "clause": "one node per token and per bond descriptor", "detail": {"nodes": len(nodes), "tokens": len(tokens), "descriptors": len(descs)}, "input": inp})
    for b in descs:
        for attr in ("prob", "term_prob", "trans_prob"):
            vals = [d[attr] for _, _, d in G.out_edges(b, data=True) if attr in d]
            if vals and abs(sum(vals) - 1.0) > 1e-6:
                viol.append({"key": K + f"[normalised][{attr}]", "clause": "from every descriptor node the reaction, termination and transition probabilities each sum to 1 or are absent",
                             "detail": {"descriptor": b.generate_string(True), "sum": float(sum(vals)), "values": [float(v) for v in vals]}, "input": inp})
    for u, v, d in G.edges(data=True):
        if "weight" in d and isinstance(u, BondDescriptor) and isinstance(v, BondDescriptor) and not compat(bd_info(u), bd_info(v)):
            viol.append({"key": K + "[weight-edges-compatible]", "clause": "weight edges join compatible descriptors only", "detail": {}, "input": inp})
    if not mol.generable:
        return evals, G
    # (b) against the generator
    seen_pairs = set()

    def run(script):
        aud = Audit().install()
        rng = GraphRng(seed=5, script=script, draws=[30.0] * 8)
        rng.trace = aud.trace
        try:
            with warnings.catch_warnings():
                warnings.simplefilter("ignore")
                mol.generate(rng=rng)
        except Exception:
            pass
        finally:
            aud.uninstall()
        for d in rng.log:
            kind, src, dst = d.get("edge_kind"), d.get("src"), d.get("dst")
            if kind is None or src is None or dst is None or src not in G:
                continue
            for cand, p in zip(dst, d["p"]):
                if cand is None:
                    continue
                key = (id(src), id(cand), kind)
                if key in seen_pairs:
                    continue
                seen_pairs.add(key)
                data = G.get_edge_data(src, cand) or {}
                got = data.get(kind)
                if got is None and kind == "prob":
                    got = data.get("term_prob")   # listed transitions towards end groups are stored as 'prob' too; tolerate either name
                if got is None:
                    continue     # "or are absent": a probability the graph does not state is not a wrong probability
                if abs(float(got) - p) > 1e-9:
                    viol.append({"key": K + f"[generator-law][{kind}]", "clause": "each probability equals the probability with which generation makes that pick",
                                 "detail": {"from": src.generate_string(True), "to": cand.generate_string(True), "graph": float(got), "generator_p": p, "site": d.get("site")}, "input": inp})
        return [{"options": e["options"], "k": e["k"]} for e in rng.log], None
    res, _ = enumerate_scripts(run, max_paths=30 if tier == "quick" else 150, max_depth=10)
    evals += len(res)
    return evals, G


def work(task):
    from gbigsmiles import Molecule
    viol, distinct, samples = [], set(), []
    evals = 0
    for text in task["texts"]:
        try:
            with warnings.catch_warnings():
                warnings.simplefilter("ignore")
                mol = Molecule(corpus.shrink_masses(text))
        except Exception:
            continue
        before = str(mol)
        try:
            n, G = check_graph(mol, text, task["tier"], viol)
            # building the graph twice gives the same graph and leaves the molecule alone (C10 shares this)
            with warnings.catch_warnings():
                warnings.simplefilter("ignore")
                G2 = mol.gen_reaction_graph()
            def sig(g):
                return sorted((str(u), str(v), tuple(sorted((k, round(float(x), 12)) for k, x in d.items() if isinstance(x, (int, float, np.floating)))) ) for u, v, d in g.edges(data=True))
            if sig(G) != sig(G2) or str(mol) != before:
                viol.append({"key": "C16/Molecule.gen_reaction_graph/frame[repeatable]", "clause": "building the graph does not change the molecule; a second graph is the same graph",
                             "detail": {"before": before[:160], "after": str(mol)[:160]}, "input": {"text": text}})
        except Exception as e:
            if harness.raised_in_checker(e):
                raise
            viol.append({"key": f"C16/Molecule.gen_reaction_graph/safe[{type(e).__name__}]", "clause": "the reaction graph of an accepted molecule can be built and passes its own validation",
                         "detail": {"error": str(e)[:100]}, "input": {"text": text}})
            n = 1
        evals += n
        distinct.add(text)
        if len(samples) < 1:
            samples.append({"text": text[:160]})
    seen, uniq = set(), []
    for v in viol:
        if v["key"] not in seen:
            seen.add(v["key"])
            uniq.append(v)
    return {"evaluations": evals, "distinct": [hash(x) for x in distinct], "violations": uniq, "samples": samples}


def run(tier="quick", seed=0):
    cases = [c for c in corpus.all_cases(tier, seed) if c["kind"] == "molecule"]
    texts = [c["text"] for c in cases]
    # descriptors that read alike but bond with different order (the graph must keep their partner sets apart); such molecules cannot be generated
    # (a dangling '=' is not a valid fragment), so they are listed here and not in the general corpus
    texts += ["{[][$]CC[$], [$|2|]CC(C)=[$], [$]=C(C)C[$|3|]; [$]=O, [$][H][]}|gauss(300, 20)|",
              "C{[>][<]CC[>], [<|2|]=CC=[>|5|]; [<][H], [>]=O[<]}|uniform(40, 90)|F"]
    tasks = [{"texts": texts[i:i + 4], "tier": tier} for i in range(0, len(texts), 4)]
    res = harness.run_tasks("monitor.drive_C16", "work", tasks, timeout=600 if tier == "quick" else 2400)
    out = harness.merge(res, rule="every molecule of the corpus: graph nodes and per-node sums; every partner pick of enumerated generations (scripted generator, "
                        "bounded) compared edge by edge with the graph. distinct = molecules")
    out["timeouts_ignored"] = out.pop("timeouts")
    out["timeouts"] = []
    out["assumptions"] = ["bounded layer: only the enumerated molecules and choice sequences; an edge the generator never reached on the explored paths is only covered by the normalisation clause"]
    return out
