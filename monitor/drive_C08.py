"""Bounded layer for C08: clauses of C08 evaluated on audited generations of the real code (see monitor/gendrive.py)."""
from . import gendrive


def run(tier="quick", seed=0):
    return gendrive.run_for(["C08"], tier, seed)
