"""Bounded layer for C19: get_ensemble_prob of linear directed chains against the closed form
P(start) * prod_blocks [F(m_n) - F(m_(n-1))]  with the documented law F (monitor/distlaw.py) and exact fragment masses;
sums over chain lengths, probability 0 outside the ensemble, invariance under atom renumbering of the queried SMILES."""
import itertools
import random
import warnings

from rdkit import Chem
from rdkit.Chem import Descriptors as rdDescriptors

from . import distlaw, harness

UNITS = {"A": "C(N)C", "B": "C(=O)C", "D": "C(F)C"}
DISTS = [("gauss", (100.0, 20.0)), ("uniform", (50, 150)), ("poisson", (100.0,)), ("schulz_zimm", (150.0, 120.0)), ("log_normal", (120.0, 1.3)), ("flory_schulz", (0.03,))]


def umass(u):
    return rdDescriptors.HeavyAtomMolWt(Chem.MolFromSmiles(UNITS[u]))


def big_text(prefix, blocks, suffix):
    if prefix == "END":      # end-group initiated: one block, the two end groups are [H] and `suffix`
        (u, (fam, par)), = blocks
        return "{[][<]" + UNITS[u] + "[>]; [<][H], [>]" + suffix + "[]}|" + distlaw.text_of(fam, par) + "|"
    t = prefix
    for u, (fam, par) in blocks:
        t += "{[<][<]" + UNITS[u] + "[>][>]}|" + distlaw.text_of(fam, par) + "|"
    return t + suffix


_BIG = {}


def member_smiles(prefix, blocks, counts, suffix):
    """the member with the given block lengths, produced by the real generator under scripted target masses
    ((n - 1/2) unit masses per block; single repeat unit, so there is no other random decision)"""
    from gbigsmiles import Molecule
    from .genaudit import Audit, SiteRng
    text = big_text(prefix, blocks, suffix)
    if text not in _BIG:
        _BIG[text] = Molecule(text)
    draws = [(n - 0.5) * umass(u) for (u, _), n in zip(blocks, counts)]
    aud = Audit().install()
    try:
        res = _BIG[text].generate(rng=SiteRng(seed=1, script=[], draws=draws))
    finally:
        aud.uninstall()
    return res.smiles


def closed_form(blocks, counts):
    p = 1.0
    for (u, (fam, par)), n in zip(blocks, counts):
        ref = distlaw.REF[fam](*par)
        m = umass(u)
        # the library accumulates the fragment mass unit by unit: reproduce the same floating point sums
        val, prev = 0.0, 0.0
        for _ in range(n):
            prev = val
            val += m
        p *= ref.cdf(val) - ref.cdf(prev)
    return p


def work(task):
    from gbigsmiles import Molecule
    from gbigsmiles.mol_prob import get_ensemble_prob
    viol, distinct, samples = [], set(), []
    evals = 0
    rng = random.Random(task["seed"])
    prefix, suffix, blocks = task["prefix"], task["suffix"], [tuple(b) for b in task["blocks"]]
    blocks = [(u, (fam, tuple(par))) for u, (fam, par) in blocks]
    text = big_text(prefix, blocks, suffix)
    inp = {"text": text}
    K = "C19/get_ensemble_prob/post"
    with warnings.catch_warnings():
        warnings.simplefilter("ignore")
        big = Molecule(text)
        total = 0.0
        want_total = 0.0
        if task.get("same_unit"):
            # two consecutive blocks of the SAME unit: a chain of n units is produced by every split (k, n - k); the probabilities add up
            for n in range(2, task["nmax"] + 1):
                want = sum(closed_form(blocks, (k, n - k)) for k in range(1, n))
                smi = member_smiles(prefix, blocks, (1, n - 1), suffix)
                got = float(get_ensemble_prob(smi, big)[0])
                evals += 1
                distinct.add((text, n))
                if abs(got - want) > 1e-6 + 1e-6 * want:
                    viol.append({"key": K + "[closed-form]", "clause": "the reported probability equals the generation probability: summed over all ways to split the chain between two blocks of the same unit",
                                 "detail": {"units": n, "smiles": smi, "got": got, "want": want}, "input": inp})
                    break
            return _finish(evals, distinct, viol, samples)
        for counts in itertools.product(range(1, task["nmax"] + 1), repeat=len(blocks)):
            want = closed_form(blocks, counts)
            if want < 1e-7 and sum(counts) > len(blocks):
                continue
            smi = member_smiles(prefix, blocks, counts, suffix)
            got = float(get_ensemble_prob(smi, big)[0])
            evals += 1
            distinct.add((text, counts))
            total += got
            want_total += want
            if abs(got - want) > 1e-6 + 1e-6 * want:
                viol.append({"key": K + "[closed-form]" + ("[heavy-end-group-start]" if prefix == "END" else ""), "clause": "the reported probability equals the product over blocks of the distribution's probability between the cumulative block masses, times the start probability",
                             "detail": {"units": counts, "smiles": smi, "got": got, "want": want}, "input": inp})
                break
            # atom order of the queried SMILES
            if task.get("renumber") and sum(counts) <= 5:
                pp = Chem.SmilesParserParams()
                pp.removeHs = False
                m = Chem.MolFromSmiles(smi, pp)
                for _ in range(task["renumber"]):
                    order = list(range(m.GetNumAtoms()))
                    rng.shuffle(order)
                    smi2 = Chem.MolToSmiles(Chem.RenumberAtoms(m, order), canonical=False)
                    got2 = float(get_ensemble_prob(smi2, big)[0])
                    evals += 1
                    if abs(got2 - got) > 1e-9:
                        viol.append({"key": K + "[atom-order]", "clause": "the value does not depend on the atom order of the SMILES string",
                                     "detail": {"smiles": smi, "reordered": smi2, "got": got, "reordered_value": got2}, "input": inp})
                        break
            if len(samples) < 1:
                samples.append({"text": text, "units": counts, "smiles": smi, "probability": got})
        if task.get("check_sum") and abs(want_total - 1.0) < 1e-4 and abs(total - 1.0) > 2e-4:
            viol.append({"key": K + "[sums-to-one]", "clause": "the values sum to 1 over all chain lengths", "detail": {"sum": total}, "input": inp})
        if prefix == "END":
            return _finish(evals, distinct, viol, samples)
        # outside the ensemble
        outs = []
        first = blocks[0][0]
        full = member_smiles(prefix, blocks, [2] * len(blocks), suffix)
        outs.append(full.replace("N", "S", 1) if "N" in full else None)                       # a foreign atom
        # truncated / skipped members: generated from smaller ensembles with the same units
        outs.append(member_smiles(prefix, blocks[:1], [3], ""))    # chain stops at a bare repeat unit: later blocks and the suffix are missing
        if len(blocks) > 1:
            outs.append(member_smiles(prefix, blocks[:1], [2], suffix))                         # a block skipped
        outs.append(Chem.MolToSmiles(Chem.MolFromSmiles(("" if prefix == "[H]" else prefix) + ("" if suffix == "[H]" else suffix))) if prefix != "[H]" or suffix != "[H]" else None)
        for smi in outs:
            if smi is None:
                continue
            try:
                got = float(get_ensemble_prob(smi, big)[0])
            except Exception as e:
                if harness.raised_in_checker(e):
                    raise
                continue
            evals += 1
            if abs(got) > 1e-12:
                tag = "[only-suffix-missing]" if smi == outs[1] and len(blocks) == 1 else ""
                viol.append({"key": K + "[zero-outside]" + tag, "clause": "a molecule outside the ensemble has probability 0", "detail": {"smiles": smi, "got": got}, "input": inp})
    return _finish(evals, distinct, viol, samples)


def _finish(evals, distinct, viol, samples):
    seen, uniq = set(), []
    for v in viol:
        if v["key"] not in seen:
            seen.add(v["key"])
            uniq.append(v)
    return {"evaluations": evals, "distinct": [hash(x) for x in distinct], "violations": uniq, "samples": samples}


def run(tier="quick", seed=0):
    tasks = []
    for fam, par in DISTS:
        nmax = {"flory_schulz": 4, "schulz_zimm": 10, "log_normal": 8}.get(fam, 6)
        tasks.append({"prefix": "[H]", "suffix": "CO", "blocks": [("A", (fam, par))], "nmax": nmax, "seed": seed, "renumber": 2, "check_sum": fam in ("gauss", "uniform", "poisson")})
    tasks.append({"prefix": "OCC", "suffix": "[Si]", "blocks": [("A", ("gauss", (100.0, 20.0))), ("B", ("gauss", (80.0, 15.0)))], "nmax": 4, "seed": seed, "renumber": 1})
    tasks.append({"prefix": "[H]", "suffix": "CO", "blocks": [("A", ("uniform", (50, 150))), ("D", ("poisson", (90.0,)))], "nmax": 4, "seed": seed, "renumber": 1})
    tasks.append({"prefix": "[H]", "suffix": "CO", "blocks": [("A", ("gauss", (150.0, 20.0))), ("A", ("gauss", (110.0, 25.0)))], "nmax": 10, "seed": seed, "renumber": 0, "same_unit": True})
    tasks.append({"prefix": "OCC", "suffix": "[Si]", "blocks": [("B", ("uniform", (40, 160))), ("B", ("gauss", (90.0, 20.0)))], "nmax": 8, "seed": seed, "renumber": 0, "same_unit": True})
    tasks.append({"prefix": "[H]", "suffix": "F", "blocks": [("A", ("schulz_zimm", (150.0, 120.0))), ("B", ("schulz_zimm", (100.0, 80.0)))], "nmax": 3, "seed": seed, "renumber": 0})
    tasks.append({"prefix": "OCC", "suffix": "[Si]", "blocks": [("A", ("gauss", (60.0, 10.0))), ("B", ("uniform", (40, 100))), ("D", ("gauss", (70.0, 12.0)))], "nmax": 2, "seed": seed, "renumber": 0})
    # end-group initiated chains: both start groups give the same molecule, so the probability is again the closed form
    tasks.append({"prefix": "END", "suffix": "[H]", "blocks": [("A", ("uniform", (60, 200)))], "nmax": 6, "seed": seed, "renumber": 0})
    tasks.append({"prefix": "END", "suffix": "CO", "blocks": [("A", ("uniform", (60, 200)))], "nmax": 6, "seed": seed, "renumber": 0})
    if tier == "thorough":
        for fam, par in DISTS:
            for u in ("B", "D"):
                tasks.append({"prefix": "OCC", "suffix": "[Si]", "blocks": [(u, (fam, par))], "nmax": 8, "seed": seed + 1, "renumber": 4, "check_sum": fam in ("gauss", "uniform", "poisson")})
        # the same process asked about several ensembles in a row (no memory between distributions)
    # several parameter sets of one family in one process: no state may leak between distribution objects
    tasks.append({"prefix": "[H]", "suffix": "CO", "blocks": [("A", ("schulz_zimm", (200.0, 150.0)))], "nmax": 8, "seed": seed, "renumber": 0, "chain": [("schulz_zimm", (150.0, 120.0)), ("schulz_zimm", (90.0, 60.0))]})
    res = harness.run_tasks("monitor.drive_C19", "work_chain", tasks, timeout=900 if tier == "quick" else 3000)
    out = harness.merge(res, rule="prefix-started linear chains of one directed repeat unit per block, 1-3 blocks, six families; every chain length with non-negligible "
                        "probability up to a bound; random atom renumberings of short members; four kinds of non-members. distinct = (ensemble, chain lengths)")
    out["assumptions"] = ["bounded layer: only the enumerated ensembles and chain lengths; documented cdf re-implemented independently as oracle"]
    return out


def work_chain(task):
    """one process, possibly several ensembles of the same family one after the other"""
    r = work(task)
    for fam, par in task.get("chain", []):
        t2 = dict(task)
        t2["blocks"] = [(task["blocks"][0][0], (fam, par))]
        t2.pop("chain", None)
        r2 = work(t2)
        r["evaluations"] += r2["evaluations"]
        r["distinct"] += r2["distinct"]
        r["violations"] += r2["violations"]
    return r
