"""Native (run-time) evaluation of the same contract text the proof engine consumes.

A clause is Python; here it is evaluated on live objects of the real library:
  implies/iff/ite become lazy python expressions, `==` on floats is approximate (1e-9 relative; the proof side is exact
  over the reals), forall/exists range over a finite superset of every guarded index range in scope,
  old(e) is evaluated on a deep copy of the arguments taken before the call, ghost variables come from the monitor.
Frame predicates (fresh, unchanged, ...) are not meaningful natively and evaluate to True (they are proved, not monitored).
"""
import ast
import copy
import itertools
import math

from pyvc import registry as R


class _Lazy(ast.NodeTransformer):
    def __init__(self):
        self.bound = []

    def visit_Lambda(self, node):
        self.bound.append([a.arg for a in node.args.args])
        try:
            self.generic_visit(node)
        finally:
            self.bound.pop()
        return node

    def visit_Call(self, node):
        if isinstance(node.func, ast.Name) and node.func.id == "old" and len(node.args) == 1:
            # old(e) is evaluated on the pre-state; the variables bound by enclosing quantifiers are handed over by value
            src = ast.unparse(node.args[0])
            used = {x.id for x in ast.walk(node.args[0]) if isinstance(x, ast.Name)}
            names = [n for fr in self.bound for n in fr if n in used]
            env = ast.Dict(keys=[ast.Constant(n) for n in names], values=[ast.Name(n, ast.Load()) for n in names])
            return ast.Call(func=ast.Name("_old", ast.Load()), args=[ast.Constant(src), env], keywords=[])
        self.generic_visit(node)
        if isinstance(node.func, ast.Name):
            n = node.func.id
            if n == "implies" and len(node.args) == 2:
                return ast.BoolOp(op=ast.Or(), values=[ast.UnaryOp(op=ast.Not(), operand=node.args[0]), node.args[1]])
            if n == "iff" and len(node.args) == 2:
                return ast.Compare(left=ast.Call(func=ast.Name("bool", ast.Load()), args=[node.args[0]], keywords=[]),
                                   ops=[ast.Eq()], comparators=[ast.Call(func=ast.Name("bool", ast.Load()), args=[node.args[1]], keywords=[])])
            if n == "ite" and len(node.args) == 3:
                return ast.IfExp(test=node.args[0], body=node.args[1], orelse=node.args[2])
            if n == "old" and len(node.args) == 1:
                src = ast.unparse(node.args[0])
                return ast.Call(func=ast.Name("_old", ast.Load()), args=[ast.Constant(src)], keywords=[])
        return node

    def visit_Compare(self, node):
        self.generic_visit(node)
        if len(node.ops) == 1 and isinstance(node.ops[0], (ast.Eq, ast.NotEq)):
            call = ast.Call(func=ast.Name("_eq", ast.Load()), args=[node.left, node.comparators[0]], keywords=[])
            return call if isinstance(node.ops[0], ast.Eq) else ast.UnaryOp(op=ast.Not(), operand=call)
        return node


def _eq(a, b):
    if isinstance(a, bool) or isinstance(b, bool):
        return a == b
    if isinstance(a, (int, float)) and isinstance(b, (int, float)) and (isinstance(a, float) or isinstance(b, float)):
        if math.isnan(a) or math.isnan(b):
            return False
        return abs(a - b) <= 1e-9 * max(1.0, abs(a), abs(b))
    try:
        import numpy as np
        if isinstance(a, np.generic) or isinstance(b, np.generic):
            if isinstance(a, (np.floating,)) or isinstance(b, (np.floating,)):
                return abs(float(a) - float(b)) <= 1e-9 * max(1.0, abs(float(a)), abs(float(b)))
            return bool(a == b)
    except Exception:
        pass
    r = a == b
    try:
        return bool(r)
    except Exception:
        return bool(getattr(r, "all", lambda: r)())


_compiled = {}
_specfn_code = {}


def compile_clause(text):
    if text not in _compiled:
        tree = ast.parse(text.strip(), mode="eval")
        tree = ast.fix_missing_locations(_Lazy().visit(tree))
        _compiled[text] = compile(tree, f"<contract: {text[:60]}>", "eval")
    return _compiled[text]


class Env:
    """evaluation environment for one monitored call"""

    def __init__(self, ghosts, args, pre_args, result=None):
        self.g = {}
        self.ghosts = ghosts
        self.args, self.pre_args = args, pre_args
        g = self.g
        g.update({"_eq": _eq, "is_none": lambda x: x is None, "truthy": bool, "val": lambda x: x, "real": float,
                  "fresh": lambda *a: True, "preexisting": lambda *a: True, "unchanged": lambda *a: True,
                  "unchanged_except": lambda *a: True, "lists_unchanged_except": lambda *a: True,
                  "loop_lists_unchanged_except": lambda *a: True, "distinct_elems": lambda l: len(set(map(id, l))) == len(l),
                  "owner": lambda o: 1, "GEN": 1, "NOTATION": 0, "rsum": lambda l: float(sum(l)),
                  "len": len, "abs": abs, "min": min, "max": max, "isinstance": isinstance, "str": str,
                  "forall": self.forall, "exists": self.exists, "_old": self.old})
        import rdkit.Chem.rdchem as rc

        class BT:
            UNSPECIFIED, SINGLE, DOUBLE, TRIPLE, QUADRUPLE, ONEANDAHALF = (rc.BondType.UNSPECIFIED, rc.BondType.SINGLE, rc.BondType.DOUBLE,
                                                                        rc.BondType.TRIPLE, rc.BondType.QUADRUPLE, rc.BondType.ONEANDAHALF)
        g["BT"] = BT
        for name, (argn, body, src) in R.SPECFNS.items():
            if name not in _specfn_code:
                fn_ast = ast.parse(src)
                fn_ast = ast.fix_missing_locations(_Lazy().visit(fn_ast))
                _specfn_code[name] = compile(fn_ast, f"<specfn {name}>", "exec")
            exec(_specfn_code[name], g)
        g.update(ghosts)
        g.update(args)
        if result is not None or "result" not in g:
            g["result"] = result

    def domain(self):
        n = 0
        for v in list(self.g.values()):
            try:
                if hasattr(v, "__len__") and not isinstance(v, (str, dict)):
                    n = max(n, len(v))
            except Exception:
                pass
        return range(-1, n + 2)

    def forall(self, *a):
        fn = a[-1]
        k = fn.__code__.co_argcount
        dom = range(a[0], a[1]) if len(a) == 3 else self.domain()
        for tup in itertools.product(dom, repeat=k):
            if not fn(*tup):
                return False
        return True

    def exists(self, *a):
        fn = a[-1]
        k = fn.__code__.co_argcount
        dom = range(a[0], a[1]) if len(a) == 3 else self.domain()
        return any(fn(*tup) for tup in itertools.product(dom, repeat=k))

    def old(self, src, bound=None):
        sub = getattr(self, "_pre_env", None)
        if sub is None:
            sub = self._pre_env = Env(self.ghosts.get("__pre__", self.ghosts), self.pre_args, self.pre_args)
            sub.g.update(getattr(self, "extra", {}))
        sub.g.update(bound or {})
        return sub.eval(src)

    def eval(self, text):
        return eval(compile_clause(text), self.g)

    def holds(self, text):
        return bool(self.eval(text))
