"""Bounded layer for C13 (see monitor/sysdrive.py)."""
from . import sysdrive


def run(tier="quick", seed=0):
    return sysdrive.run_for(["C13"], tier, seed)
