"""Input corpus of the bounded layer: G-BigSMILES strings printed from structured descriptions (archetypes of the
properties' quantifiers) plus every string documented in README.md, SI.md and tests/*.py (extracted mechanically).

Everything is deterministic for a given (tier, seed).  A case is a dict:
  {"text": str, "kind": "molecule"|"system", "archetype": str, "ast": {...} | None}
"""
import itertools
import os
import random
import re

REPO = os.environ.get("VERIF_REPO", "/repo")

# small masses so that generation of one molecule takes milliseconds
DISTS = ["uniform(20, 90)", "gauss(70, 15)", "schulz_zimm(120, 100)", "poisson(60)", "flory_schulz(0.1)",
         "log_normal(70, 1.2)"]


def bd(sym, id_="", weight=None, prefix=""):
    return {"sym": sym, "id": id_, "weight": weight, "prefix": prefix}


def bd_text(d, ext=True, style=0):
    s = f"{d['prefix']}[{d['sym']}{d['id']}"
    w = d["weight"]
    if ext and w is not None:
        if isinstance(w, (list, tuple)):
            s += "|" + " ".join(num_text(x, style) for x in w) + "|"
        else:
            s += "|" + num_text(w, style) + "|"
    return s + "]"


def num_text(x, style=0):
    """the same number in different float syntaxes"""
    if style == 0:
        return repr(float(x)) if not float(x).is_integer() else str(int(x))
    if style == 1:
        return repr(float(x))
    if style == 2:
        t = f"{float(x):e}"
        return t if float(t) == float(x) else repr(float(x))
    if style == 3:
        t = repr(float(x))
        return t[1:] if t.startswith("0.") else (t[:-1] if t.endswith(".0") else t)   # .5  /  3.
    return str(x)


def token_text(tok, ext=True, style=0):
    """tok: list of str pieces and descriptor dicts"""
    return "".join(p if isinstance(p, str) else bd_text(p, ext, style) for p in tok)


def stochastic_text(st, ext=True, style=0, ws=0):
    sep = [", ", ",", " , "][ws % 3]
    semi = ["; ", ";", " ; "][ws % 3]
    s = "{" + bd_text(st["left"], ext, style)
    s += [" ", "", " "][ws % 3] if ws else ""
    s += sep.join(token_text(t, ext, style) for t in st["repeat"])
    if st["end"]:
        s += semi + sep.join(token_text(t, ext, style) for t in st["end"])
    s += ([" ", "", ""][ws % 3] if ws else "") + bd_text(st["right"], ext, style) + "}"
    if ext and st.get("dist"):
        s += "|" + st["dist"] + "|"
    return s


def molecule_text(m, ext=True, style=0, ws=0):
    out = ""
    for e in m["elements"]:
        out += stochastic_text(e, ext, style, ws) if isinstance(e, dict) and "repeat" in e else token_text(e, ext, style)
    if m.get("mixture") is not None and ext:
        out += ".|" + m["mixture"] + "|"
    elif m.get("mixture") is not None:
        out += "."
    return out


# ------------------------------------------------------------------ building blocks
RU_DIRECTED = [  # (pieces) with a '<' tail and '>' head
    lambda a, b: [a, "CC", b],
    lambda a, b: [a, "CC(", b, ")c1ccccc1"],
    lambda a, b: [a, "CC(C(=O)OC)", b],
    lambda a, b: [a, "C[Si](C)(C)O", b],
    lambda a, b: [a, "CC(Cl)", b],
    lambda a, b: [a, "C(N)C", b],
    lambda a, b: ["CC(", b, ")(C", a, ")C(=O)OC"],
    lambda a, b: [a, "COC", b],
    lambda a, b: [a, "CC(C)(", b, ")C(=O)OC"],          # descriptor-only branch right after a non-empty branch
    lambda a, b: [a, "CC(C(F)(F)F)(", b, ")"],
]
END_H = lambda d: [d, "[H]"]
END_TOK = ["[H]", "O", "CO", "Br", "N", "C(=O)O", "F"]
PREFIX = ["C", "CC", "N#CC(C)(C)", "[H]", "OC", "CCOC(=O)C(C)(C)"]
SUFFIX = ["F", "[H]", "Br", "CO", "[Br]", "C(C)(C)C#N"]


def homo(rng, dist, ru=0, idn="", w1=None, w2=None, start_end=False, prefix="C", suffix="F"):
    a, b = bd("<", idn, w1), bd(">", idn, w2)
    if start_end:
        st = {"left": bd(""), "repeat": [RU_DIRECTED[ru](a, b)], "end": [[bd("<", idn), "[H]"], [bd(">", idn), "CO"]],
              "right": bd(""), "dist": dist}
        return {"elements": [st], "archetype": "end-group-initiated"}
    st = {"left": bd(">", idn), "repeat": [RU_DIRECTED[ru](a, b)], "end": [], "right": bd("<", idn), "dist": dist}
    return {"elements": [[prefix], st, [suffix]], "archetype": "homopolymer"}


def random_copolymer(rng, dist, weights=(None, None), lists=False):
    a1, b1, a2, b2 = bd("<", "", weights[0]), bd(">", "", weights[0]), bd("<", "", weights[1]), bd(">", "", weights[1])
    if lists:
        a1["weight"], b1["weight"], a2["weight"], b2["weight"] = [0, 7, 0, 3], [7, 0, 3, 0], [0, 3, 0, 7], [3, 0, 7, 0]
    st = {"left": bd(">"), "repeat": [RU_DIRECTED[1](a1, b1), RU_DIRECTED[2](a2, b2)], "end": [], "right": bd("<"), "dist": dist}
    return {"elements": [["CCOC(=O)C(C)(C)"], st, ["[Br]"]], "archetype": "random-copolymer" + ("-lists" if lists else "")}


def block(rng, d1, d2, connector=None):
    s1 = {"left": bd(">"), "repeat": [RU_DIRECTED[0](bd("<"), bd(">"))], "end": [], "right": bd("<"), "dist": d1}
    s2 = {"left": bd(">"), "repeat": [RU_DIRECTED[7](bd("<"), bd(">"))], "end": [], "right": bd("<"), "dist": d2}
    els = [["OC"], s1] + ([[connector]] if connector else []) + [s2, ["F"]]
    return {"elements": els, "archetype": "block" + ("-connector" if connector else "")}


def dollar_block(rng, d1, d2):
    s1 = {"left": bd("$"), "repeat": [[bd("$"), "C", bd("$")]], "end": [], "right": bd("$"), "dist": d1}
    s2 = {"left": bd("$"), "repeat": [[bd("$"), "CC(C(=O)OC)", bd("$")]], "end": [], "right": bd("$"), "dist": d2}
    return {"elements": [["NC"], s1, ["COOC"], s2, ["CO"]], "archetype": "block-$-connector"}


def step_growth(rng, dist):
    st = {"left": bd(""), "repeat": [[bd("<"), "C(=O)CCCCC(=O)", bd("<")], [bd(">"), "NCCCCCCN", bd(">")]],
          "end": [[bd("<"), "[H]"], [bd(">"), "O"]], "right": bd(""), "dist": dist}
    return {"elements": [st], "archetype": "step-growth-AA-BB"}


def star(rng, dist):
    st = {"left": bd("$"), "repeat": [[bd("$"), "C(C", bd("<"), ")(C", bd("<"), ")(C", bd("<"), ")"], [bd(">"), "CC", bd("<")]],
          "end": [[bd(">"), "[H]"]], "right": bd(""), "dist": dist}
    return {"elements": [["[H]"], st], "archetype": "star"}


def graft(rng, dist):
    st = {"left": bd("$"), "repeat": [["O(", bd("<", "", 3), ")(C(", bd("$"), ")C", bd("$"), ")"], [bd(">"), "CCO", bd("<", "", [0, 0, 0, 1, 0, 2])]],
          "end": [[bd(">"), "[H]"]], "right": bd("$"), "dist": dist}
    return {"elements": [["N#CC(C)(C)"], st, ["Br"]], "archetype": "graft-lists"}


def hyperbranched(rng, dist, w=None):
    st = {"left": bd("$"), "repeat": [[bd("$", "", w), "CC(CC", bd("$", "", w), ")(CC", bd("$", "", w), ")"], [bd("$"), "CC", bd("$")]],
          "end": [[bd("$"), "[H]"]], "right": bd("$"), "dist": dist}
    return {"elements": [["C"], st, ["[H]"]], "archetype": "hyper-branched"}


def ids_two_families(rng, dist):
    st = {"left": bd(""), "repeat": [[bd("<", 1), "CC(", bd(">", 1), ")c1ccccc1"], [bd("<", 2), "CC(", bd(">", 2), ")C(=O)OC"]],
          "end": [["CC(C)", bd(">", 1, 2)], ["CC(C)", bd(">", 2)], [bd("<", 1, 2), "[Br]"], [bd("<", 2), "[Br]"]], "right": bd(""), "dist": dist}
    return {"elements": [st], "archetype": "ids"}


def archetypes(tier, seed):
    rng = random.Random(seed)
    out = []
    dists = DISTS
    for i, d in enumerate(dists):
        out.append(homo(rng, d, ru=i % len(RU_DIRECTED)))
        out.append(homo(rng, d, ru=(i + 3) % len(RU_DIRECTED), start_end=True))
    out.append(homo(rng, dists[0], ru=0, idn=1))
    out.append(homo(rng, dists[0], ru=8))               # descriptor-only branch right after a branch with atoms: ')(' between two descriptors' atoms
    out.append(homo(rng, dists[1], ru=9, prefix="CC", suffix="Br"))
    out.append(homo(rng, dists[1], ru=0, idn=0))          # id 0 is a legal id (and falsy in Python): plain prefix / suffix get their descriptors inserted
    b0 = block(rng, dists[0], dists[1], connector="CO")
    for e in b0["elements"]:
        if isinstance(e, dict):
            e["left"]["id"] = e["right"]["id"] = 0
            for t in e["repeat"]:
                for p_ in t:
                    if isinstance(p_, dict):
                        p_["id"] = 0
    b0["archetype"] = "block-connector-id-0"
    out.append(b0)
    out.append(homo(rng, dists[1], ru=1, w1=2, w2=0.5))
    out.append(homo(rng, dists[2], ru=6, prefix="[H]", suffix="C(C)CC(c1ccccc1)c1ccccc1"))
    out.append(random_copolymer(rng, dists[2]))
    out.append(random_copolymer(rng, dists[0], weights=(8, 2)))
    out.append(random_copolymer(rng, dists[1], weights=(0, 1)))
    out.append(random_copolymer(rng, dists[2], lists=True))
    out.append(block(rng, dists[0], dists[1]))
    out.append(block(rng, dists[2], dists[3], connector="CC"))
    out.append(dollar_block(rng, "uniform(12, 72)", "uniform(12, 72)"))
    b = block(rng, dists[1], dists[0], connector="CC")
    b["elements"][1]["right"] = bd("<", "", 8)          # weighted terminal in front of a connector token
    b["archetype"] = "block-connector-weighted-terminal"
    out.append(b)
    b = block(rng, dists[0], dists[3], connector="COC")
    b["elements"][1]["right"] = bd("<", 2, [1, 3])
    b["elements"][1]["left"] = bd(">", 2)
    b["elements"][1]["repeat"] = [RU_DIRECTED[0](bd("<", 2), bd(">", 2))]
    b["archetype"] = "block-connector-listed-terminal"
    out.append(b)
    out.append(step_growth(rng, "flory_schulz(0.1)"))
    out.append(step_growth(rng, dists[0]))
    out.append(star(rng, "gauss(120, 30)"))
    out.append(graft(rng, "poisson(90)"))
    out.append(hyperbranched(rng, "flory_schulz(0.1)"))
    out.append(hyperbranched(rng, "uniform(30, 120)", w=0.1))
    out.append(ids_two_families(rng, "schulz_zimm(140, 110)"))
    out.append(homo(rng, dists[0], ru=8))
    out.append(homo(rng, dists[1], ru=9, start_end=True))
    out.append(homo(rng, dists[3], ru=9))
    # explicit transition list that puts weight on an incompatible descriptor (generation must refuse that pick)
    st = {"left": bd(">"), "repeat": [[bd("<"), "CN", bd(">", "", [9, 1, 0, 0])]], "end": [[bd("<"), "F"], [bd(">"), "Cl"]], "right": bd(""), "dist": dists[1]}
    out.append({"elements": [["OC"], st], "archetype": "list-weight-on-incompatible"})
    # left terminal carrying a transition list whose sum is not 1
    st = {"left": bd(">", "", [3, 0, 1, 0]), "repeat": [[bd("<"), "CC", bd(">")], [bd("<"), "C(C)C", bd(">")]], "end": [], "right": bd("<"), "dist": dists[1]}
    out.append({"elements": [["N"], st, ["O"]], "archetype": "left-terminal-list"})
    st = {"left": bd(">", "", 2), "repeat": [[bd("<"), "CC", bd(">", "", [0, 1, 3, 0])], [bd("<"), "C(C)C", bd(">")]], "end": [], "right": bd("<"), "dist": dists[0]}
    out.append({"elements": [["OC"], st, ["F"]], "archetype": "repeat-list-sum-not-1"})
    # weights that differ by less than any tolerance one might be tempted to use
    st = {"left": bd(">"), "repeat": [[bd("<", "", 0), "C(F)C", bd(">")], [bd("<", "", 1e-9), "CC", bd(">")]], "end": [[bd("<"), "[H]"]], "right": bd(""), "dist": "uniform(40, 100)"}
    out.append({"elements": [["N"], st], "archetype": "near-equal-weights"})
    st = {"left": bd(">"), "repeat": [[bd("<", "", 1.0), "C(F)C", bd(">")], [bd("<", "", 1.0 + 1e-7), "CC", bd(">")]], "end": [[bd("<"), "[H]"]], "right": bd(""), "dist": "uniform(40, 100)"}
    out.append({"elements": [["N"], st], "archetype": "near-equal-weights"})
    # two stochastic objects directly next to each other, the first one leaving a listed descriptor open
    s1 = {"left": bd("<"), "repeat": [[bd("<", "", [0, 1]), "CC", bd(">")]], "end": [], "right": bd(">"), "dist": dists[0]}
    s2 = {"left": bd("<"), "repeat": [[bd("<"), "OC", bd(">", "", 3)], [bd("<"), "SC", bd(">", "", 1)]], "end": [], "right": bd(">"), "dist": dists[1]}
    out.append({"elements": [["C"], s1, s2, ["F"]], "archetype": "adjacent-objects-listed-handover"})
    # three stochastic objects in a row, the admissible entry descriptors of the later ones weighted differently
    s1 = {"left": bd(">"), "repeat": [[bd("<"), "CC", bd(">")]], "end": [], "right": bd("<"), "dist": dists[0]}
    s2 = {"left": bd(">"), "repeat": [[bd("<", "", 1), "OC", bd(">")], [bd("<", "", 3), "SC", bd(">")]], "end": [], "right": bd("<"), "dist": dists[1]}
    s3 = {"left": bd(">"), "repeat": [[bd("<"), "NC", bd(">")], [bd("<"), "C(F)C", bd(">")]], "end": [], "right": bd("<"), "dist": dists[2]}
    out.append({"elements": [["C"], s1, s2, s3, ["F"]], "archetype": "triblock-adjacent-objects"})
    s1 = {"left": bd("$"), "repeat": [[bd("$", "", 2), "CC", bd("$")]], "end": [], "right": bd("$"), "dist": dists[0]}
    s2 = {"left": bd("$"), "repeat": [[bd("$", "", 5), "OCC", bd("$", "", 1)]], "end": [], "right": bd("$"), "dist": dists[3]}
    s3 = {"left": bd("$"), "repeat": [[bd("$"), "NC", bd("$", "", 0.5)]], "end": [], "right": bd("$"), "dist": dists[1]}
    out.append({"elements": [["C"], s1, s2, s3, ["F"]], "archetype": "triblock-adjacent-objects"})
    # a branching repeat unit whose listed transitions attach an END GROUP during growth (its mass counts towards the target like any other unit)
    st = {"left": bd(">"), "repeat": [[bd("<"), "C(", bd(">", 1, [0, 0, 0, 1]), ")C", bd(">", "", [1, 0, 0, 0])]], "end": [[bd("<", 1), "F"]], "right": bd("<"), "dist": "gauss(100, 0)"}
    out.append({"elements": [["C"], st, ["N"]], "archetype": "listed-transition-to-end-group-during-growth"})
    # more than 26 tokens in one molecule (the residue-name table has 26 letters)
    many = [["C"]]
    for _ in range(14):
        many.append({"left": bd("$"), "repeat": [[bd("$"), "C", bd("$")]], "end": [], "right": bd("$"), "dist": "uniform(12, 30)"})
        many.append(["O"])
    out.append({"elements": many, "archetype": "more-than-26-tokens"})
    if tier == "thorough":
        for d1, d2 in itertools.product(dists[:4], dists[2:]):
            out.append(block(rng, d1, d2, connector=rng.choice([None, "CC", "COC"])))
        for i in range(len(RU_DIRECTED)):
            for idn in ("", 3, 12):
                for w in (None, 0.5, 3):
                    out.append(homo(rng, rng.choice(dists), ru=i, idn=idn, w1=w, w2=w, prefix=rng.choice(PREFIX), suffix=rng.choice(SUFFIX)))
    cases = []
    for m in out:
        m.setdefault("mixture", None)
        cases.append({"text": molecule_text(m), "kind": "molecule", "archetype": m["archetype"], "ast": m})
    return cases


def systems(tier, seed):
    rng = random.Random(seed + 1)
    out = []
    comps = ["CCCCC", "CCO", "C1CCOC1", molecule_text(homo(rng, "uniform(20, 90)")), molecule_text(homo(rng, "gauss(70, 15)", ru=1)),
             molecule_text(homo(rng, "poisson(60)", start_end=True))]
    specs = [[("CCCCC", "10%"), (comps[3], "500")], [("CCO", "50%"), ("CCCCC", "50%")], [(comps[3], "300"), (comps[4], "700")],
             [("CCO", "25%"), (comps[5], "25%"), (comps[3], "1000")], [(comps[4], "80%"), ("C1CCOC1", None), ("CCCCC", "200")],
             [("CCO", "100")], [(comps[3], "40%"), (comps[4], "60%")]]
    for sp in specs:
        t = "".join(c + (f".|{m}|" if m is not None else ".") for c, m in sp)
        if sp[-1][1] is None:
            t = t[:-1]
        out.append({"text": t, "kind": "system", "archetype": "multi-component", "ast": None, "spec": sp})
    return out


_STR = re.compile(r'"((?:[^"\\\n]|\\.)*)"')


def documented(limit=None):
    """every double-quoted literal in README.md, SI.md and tests/*.py that contains a stochastic object or a mixture"""
    files = [os.path.join(REPO, "README.md"), os.path.join(REPO, "SI.md")]
    tdir = os.path.join(REPO, "tests")
    if os.path.isdir(tdir):
        files += sorted(os.path.join(tdir, f) for f in os.listdir(tdir) if f.endswith(".py"))
    seen, out = set(), []
    for fn in files:
        try:
            txt = open(fn, encoding="utf-8", errors="replace").read()
        except OSError:
            continue
        for m in _STR.finditer(txt):
            s = m.group(1)
            if ("{" in s and "}" in s and "[" in s) or ".|" in s:
                if "\\" in s or "+str(" in s or s in seen or len(s) > 600 or "{0}" in s or "%" in s and "|" not in s:
                    continue
                seen.add(s)
                out.append({"text": s, "kind": "system" if ".|" in s else "molecule", "archetype": "documented:" + os.path.basename(fn), "ast": None})
    return out[:limit] if limit else out


def shrink_masses(text):
    """documented strings use masses of thousands; scale distribution parameters and system masses down so that one
    generation is fast (the notation is otherwise unchanged)"""
    def dist(m):
        name, args = m.group(1), m.group(2)
        nums = [float(x) for x in re.findall(r"[-+]?\d*\.?\d+(?:[eE][-+]?\d+)?", args)]
        if name in ("gauss",) and len(nums) == 2:
            return f"|gauss({min(nums[0], 90.0)}, {min(nums[1], 15.0)})|"
        if name == "uniform" and len(nums) == 2:
            return f"|uniform({int(min(nums[0], 30))}, {int(min(nums[1], 90))})|"
        if name == "schulz_zimm" and len(nums) == 2:
            return "|schulz_zimm(120, 100)|"
        if name == "poisson":
            return "|poisson(60)|"
        if name == "flory_schulz":
            return "|flory_schulz(0.1)|"
        if name == "log_normal":
            return "|log_normal(70, 1.2)|"
        return m.group(0)
    text = re.sub(r"\|\s*(gauss|uniform|schulz_zimm|poisson|flory_schulz|log_normal)\s*\(([^)]*)\)\s*\|", dist, text)

    def mix(m):
        body = m.group(1)
        if "%" in body:
            return m.group(0)
        try:
            v = float(body)
        except ValueError:
            return m.group(0)
        return f".|{min(v, 2000.0)}|"
    return re.sub(r"\.\|([^|]*)\|", mix, text)


def all_cases(tier="quick", seed=0):
    return archetypes(tier, seed) + systems(tier, seed) + documented()
