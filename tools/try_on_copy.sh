#!/bin/bash
# tools/try_on_copy.sh <seeded-name> [check args...]: run the property's quick check against one seeded change on a scratch copy of /repo (outside /repo and /verif)
n=$1; shift
prop=$(python3 -c "import json;print(json.load(open('/verif/seeded/$n/meta.json'))['property'])")
T=$(mktemp -d /tmp/verif_try_${n}_XXXX); trap 'rm -rf "$T"' EXIT
cp -r /repo/src /repo/tests /repo/README.md /repo/SI.md "$T"/; (cd "$T" && patch -p1 -s -i /verif/seeded/$n/patch.diff) || { echo "patch does not apply"; exit 9; }
mkdir -p "$T/out"
PYTHONPATH=$T/src VERIF_REPO=$T VERIF_REPO_SRC=$T/src/gbigsmiles VERIF_OUT=$T/out /verif/check $prop --tier quick "$@" 2>&1 | grep -v conda | grep -E "VIOLATION|UNDECIDED|CHECKER|KNOWN|^C[0-9]+ \[" | cut -c1-260
