#!/bin/bash
# tools/confirm_seed.sh <PROP> <mN> [srcdir]: confirm a sub-agent's seeded change on a scratch copy of /repo (outside /repo and /verif):
#   demo passes on the clean copy, fails with the patch, the nine test files still pass with the patch.  Then file it under /verif/seeded/<PROP>-<mN>/.
set -u
P=$1; M=$2; SRC=${3:-/tmp/wt/$P/out/$M}
T=$(mktemp -d /tmp/verif_confirm_${P}_XXXX)
trap 'rm -rf "$T"' EXIT
cp -r /repo/src /repo/tests /repo/README.md /repo/SI.md "$T"/ 2>/dev/null
cp "$SRC/patch.diff" "$SRC/demo.py" "$T"/
cd "$T"
PYTHONPATH=$T/src timeout 1800 /venv/bin/python demo.py > demo_clean.log 2>&1; C=$?
patch -p1 -s -i patch.diff || { echo "PATCH DOES NOT APPLY"; exit 9; }
PYTHONPATH=$T/src timeout 1800 /venv/bin/python demo.py > demo_patched.log 2>&1; D=$?
mkdir logs
for f in tests/test_*.py; do PYTHONPATH=$T/src /venv/bin/python -m pytest -q -p no:cacheprovider --timeout=900 $f > logs/$(basename $f .py).log 2>&1 & done
wait
passed=$(grep -ho "[0-9]* passed" logs/*.log | awk '{s+=$1} END{print s}')
failed=$(grep -h "^FAILED" logs/*.log | grep -v "test_flory_schulz\|test_schulz_zimm" | wc -l)
echo "$P-$M demo_clean=$C demo_patched=$D tests_passed=$passed other_failures=$failed"
grep -h "^FAILED" logs/*.log
tail -2 demo_patched.log
if [ "$C" = 0 ] && [ "$D" != 0 ] && [ "$failed" = 0 ] && [ "${passed:-0}" -ge 61 ]; then
  O=/verif/seeded/$P-$M; mkdir -p $O
  cp patch.diff demo.py $O/
  /venv/bin/python - "$SRC/meta.json" "$O/meta.json" "$C" "$D" "$passed" "$failed" <<'PY'
import json,sys
src,dst,c,d,p,f=sys.argv[1:]
m=json.load(open(src))
m["written_by"]="independent sub-agent given only the property text and a scratch worktree of /repo"
m["confirmed_by_me"]={"how":"scratch copy of /repo working tree (src, tests) outside /repo and /verif: demo.py on the clean copy, patch applied with patch -p1, demo.py again, then the nine test files in parallel; copy removed afterwards (tools/confirm_seed.sh)",
  "demo_exit_clean":c,"demo_exit_patched":d,"tests_passed":p,"failures_other_than_test_flory_schulz_and_test_schulz_zimm":f}
json.dump(m,open(dst,"w"),indent=1)
PY
  echo "KEPT $O"
else
  echo "REJECTED"
fi
