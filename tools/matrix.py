#!/usr/bin/env python3
"""tools/matrix.py [ids...]: run the quick check of its property against every seeded change in /verif/seeded, each on a scratch
copy of /repo's working tree (outside /repo and /verif, removed afterwards), and write seeded/MATRIX.md + per-change detection.json."""
import json
import os
import re
import shutil
import subprocess
import sys
import tempfile
from concurrent.futures import ThreadPoolExecutor

HERE = os.path.dirname(os.path.dirname(os.path.abspath(__file__)))
SEEDED = os.path.join(HERE, "seeded")


def run_one(name):
    d = os.path.join(SEEDED, name)
    prop = json.load(open(os.path.join(d, "meta.json")))["property"]
    tmp = tempfile.mkdtemp(prefix=f"verif_mx_{name}_")
    try:
        for x in ("src", "tests"):
            shutil.copytree(os.path.join("/repo", x), os.path.join(tmp, x))
        for x in ("README.md", "SI.md"):
            shutil.copy(os.path.join("/repo", x), tmp)
        p = subprocess.run(["patch", "-p1", "-s", "-i", os.path.join(d, "patch.diff")], cwd=tmp, capture_output=True, text=True)
        if p.returncode != 0:
            return name, prop, {"applies": False, "detail": (p.stdout + p.stderr)[-300:]}
        env = dict(os.environ, PYTHONPATH=os.path.join(tmp, "src"), VERIF_REPO=tmp, VERIF_REPO_SRC=os.path.join(tmp, "src", "gbigsmiles"),
                   VERIF_OUT=os.path.join(tmp, "out"), VERIF_JOBS="4")
        os.makedirs(os.path.join(tmp, "out"), exist_ok=True)
        r = subprocess.run([os.path.join(HERE, "check"), prop, "--tier", "quick"] + (["--no-bounded"] if PROOF_ONLY else []),
                           cwd=HERE, env=env, capture_output=True, text=True, timeout=3600)
        out = r.stdout
        viol = re.findall(r"VIOLATION property=\S+ replay=\S*/([^/\s]+)\.json( no-failing-input-found)?", out)
        und = re.findall(r"UNDECIDED property=\S+ (?:obligation|function)=(\S+)", out)
        return name, prop, {"applies": True, "exit": r.returncode, "violations": [v[0] for v in viol], "undecided": und[:8],
                            "summary": [l for l in out.splitlines() if re.match(r"^C\d+ \[", l)][-1:] }
    finally:
        shutil.rmtree(tmp, ignore_errors=True)


PROOF_ONLY = False


def main():
    global PROOF_ONLY
    args = [a for a in sys.argv[1:] if a != "--proof-only"]
    PROOF_ONLY = "--proof-only" in sys.argv
    names = sorted(n for n in os.listdir(SEEDED) if os.path.isdir(os.path.join(SEEDED, n)))
    if args:
        names = [n for n in names if any(n.startswith(a) for a in args)]
    rows = []
    with ThreadPoolExecutor(max_workers=3) as ex:
        for name, prop, res in ex.map(run_one, names):
            json.dump(res, open(os.path.join(SEEDED, name, "detection_proof.json" if PROOF_ONLY else "detection.json"), "w"), indent=1)
            rows.append((name, prop, res))
            print(name, res.get("exit"), res.get("violations", [])[:3], flush=True)
    rows = []
    for n in sorted(os.listdir(SEEDED)):
        dj = os.path.join(SEEDED, n, "detection.json")
        if os.path.exists(dj):
            rows.append((n, json.load(open(os.path.join(SEEDED, n, "meta.json")))["property"], json.load(open(dj))))
    with open(os.path.join(SEEDED, "MATRIX.md"), "w") as f:
        f.write("# Seeded changes vs. checks (written by tools/matrix.py; each run on a scratch copy of /repo with the change applied)\n\n")
        f.write("The last two columns are the deductive layer alone (`./check <id> --no-bounded`): exit 1 = a locked obligation is refuted, 2 = it no longer discharges (undecided), 0 = the proofs do not see the change.\n\n")
        f.write("| change | property | check exit | reported as | proof-only exit | obligations refuted / no longer discharged |\n|---|---|---|---|---|---|\n")
        for name, prop, res in sorted(rows):
            pj = os.path.join(SEEDED, name, "detection_proof.json")
            pr = json.load(open(pj)) if os.path.exists(pj) else {}
            obs = [v for v in pr.get("violations", [])] + pr.get("undecided", [])
            f.write(f"| {name} | {prop} | {res.get('exit')} | {'; '.join(res.get('violations', [])[:4]) or '-'} | {pr.get('exit', '')} | {'; '.join(obs[:4]) or '-'} |\n")


if __name__ == "__main__":
    main()
