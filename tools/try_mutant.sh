#!/bin/bash
# tools/try_mutant.sh <patch.diff> <property> [more properties]: apply a seeded change to /repo, run the quick checks, undo it.
patch="$1"; shift
cd /repo || exit 9
git apply --check "$patch" || { echo "patch does not apply"; exit 9; }
trap 'git -C /repo checkout -- . ' EXIT
git apply "$patch"
cd /verif
for p in "$@"; do
  ./check "$p" --tier quick $VERIF_CHECK_ARGS 2>&1 | grep -v "conda" | grep -E "VIOLATION|UNDECIDED|CHECKER|KNOWN|^C[0-9]+ \[" 
  echo "exit=${PIPESTATUS[0]} ($p)"
done
