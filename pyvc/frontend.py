"""Front end: re-reads the repository's source on every run and extracts the functions named by contract keys.

key = module.Class.method[.closure[.closure]]  |  module.function[.closure]
What is dropped from the extracted text: docstrings and comments (ast does that), nothing else.  The engine itself
ignores `warn(...)` and `print(...)` calls and the message argument of `raise X(msg)`.
"""
import ast
import hashlib
import os

REPO_SRC = os.environ.get("VERIF_REPO_SRC", "/repo/src/gbigsmiles")


class Sources:
    def __init__(self, root=None):
        self.root = root or REPO_SRC
        self.trees = {}
        self.sha = {}
        self.text = {}
        self.imports = {}

    def module(self, mod):
        if mod not in self.trees:
            path = os.path.join(self.root, mod + ".py")
            with open(path) as f:
                txt = f.read()
            self.text[mod] = txt
            self.sha[mod] = hashlib.sha256(txt.encode()).hexdigest()
            self.trees[mod] = ast.parse(txt)
            # `from .x import y [as z]` at module level: z in this module means x.y
            self.imports[mod] = {}
            for st in self.trees[mod].body:
                if isinstance(st, ast.ImportFrom) and st.level == 1 and st.module:
                    for a in st.names:
                        self.imports[mod][a.asname or a.name] = f"{st.module}.{a.name}"
        return self.trees[mod]

    def find(self, key):
        key = key.split("#")[0]      # `function#variant`: a second contract of the same function (other parameter sorts)
        parts = key.split(".")
        node = self.module(parts[0])
        for p in parts[1:]:
            found = None
            body = node.body
            # search also inside if/try at that level (not needed so far)
            for s in body:
                if isinstance(s, (ast.FunctionDef, ast.ClassDef)) and s.name == p:
                    found = s   # last definition wins (property setter overrides are addressed as name@setter)
                    if not _is_setter(s):
                        pass
            if "@" in p:
                base, kind = p.split("@")
                for s in body:
                    if isinstance(s, ast.FunctionDef) and s.name == base and _decorator_kind(s) == kind:
                        found = s
            else:
                # prefer the getter / plain definition
                cands = [s for s in body if isinstance(s, (ast.FunctionDef, ast.ClassDef)) and s.name == p]
                plain = [s for s in cands if not _is_setter(s)]
                found = (plain or cands or [None])[0]
            if found is None:
                raise KeyError(f"{key}: {p} not found in source")
            node = found
        if not isinstance(node, ast.FunctionDef):
            raise KeyError(f"{key} is not a function")
        return node

    def span(self, key):
        n = self.find(key)
        return n.lineno, n.end_lineno

    def global_names(self, fn):
        out = set()
        for n in ast.walk(fn):
            if isinstance(n, ast.Global):
                out |= set(n.names)
        return out


def _decorator_kind(fn):
    for d in fn.decorator_list:
        if isinstance(d, ast.Attribute) and d.attr == "setter":
            return "setter"
        if isinstance(d, ast.Name) and d.id == "property":
            return "getter"
    return "plain"


def _is_setter(fn):
    return isinstance(fn, ast.FunctionDef) and _decorator_kind(fn) == "setter"


def own_loops(fn):
    """loops of this function in source order, excluding those of nested function definitions"""
    out = []

    def walk(stmts):
        for s in stmts:
            if isinstance(s, (ast.FunctionDef, ast.ClassDef, ast.Lambda)):
                continue
            if isinstance(s, (ast.For, ast.While)):
                out.append(s)
            for fld in ("body", "orelse", "handlers", "finalbody"):
                sub = getattr(s, fld, None)
                if sub:
                    if fld == "handlers":
                        for h in sub:
                            walk(h.body)
                    else:
                        walk(sub)
    walk(fn.body)
    return out
