"""Call resolution for the engine: builtins, string / list methods, constructors, closures, contracts, externals."""
import ast

import z3

from . import registry as R
from .engine import (GEN, V, VNONE, Unsupported, _fresh, exc_isa, fresh, fresh_value, is_num, lift, py, to_real)
from .sorts import BOOL, IDS, INT, NONE, PY, REAL, STR, List, Ref, classes_of, is_intlike

_count = None


def str_count(s, c):
    """abstract count of a one-character string c in s: uninterpreted with sound axioms added by users"""
    global _count
    if _count is None:
        _count = z3.Function("str_count", z3.StringSort(), z3.StringSort(), z3.IntSort())
    return _count(s, c)


def dotted(node):
    if isinstance(node, ast.Name):
        return node.id
    if isinstance(node, ast.Attribute):
        d = dotted(node.value)
        return None if d is None else f"{d}.{node.attr}"
    return None


def ev_args(eng, node, st, k, ctx):
    kwn = [kw.arg for kw in node.keywords]
    if any(a is None for a in kwn) or any(isinstance(a, ast.Starred) for a in node.args):
        raise Unsupported("star args")
    return eng.ev_list(list(node.args) + [kw.value for kw in node.keywords], st,
                       lambda s1, vs: k(s1, vs[:len(node.args)], dict(zip(kwn, vs[len(node.args):]))), ctx)


def ev_call(eng, node, st, k, ctx):
    f = node.func
    # super().method(...)
    if isinstance(f, ast.Attribute) and isinstance(f.value, ast.Call) and isinstance(f.value.func, ast.Name) \
            and f.value.func.id == "super":
        cname = eng.key.split(".")[1]
        for b in R.CLASSES[cname]["bases"]:
            key = eng.method_key(b, f.attr) if b in R.CLASSES else None
            if key:
                selfv = st.env["self"]
                return ev_args(eng, node, st, lambda s1, a, kw: eng.call_contract(s1, key, [V(Ref(b), selfv.t)] + a, kw, node, k, ctx), ctx)
        raise Unsupported(f"super().{f.attr} has no contract")
    name = dotted(f)
    # names bound locally (closures, lambdas) take precedence
    if isinstance(f, ast.Name) and f.id in st.env:
        fv = st.env[f.id]
        if fv.s == ("func",):
            key = fv.t
            if key not in R.CONTRACTS:
                raise Unsupported(f"closure {key} has no contract")
            return ev_args(eng, node, st, lambda s1, a, kw: eng.call_contract(s1, key, a, kw, node, k, ctx), ctx)
    if isinstance(f, ast.Name):
        b = BUILTINS.get(f.id)
        if b is not None and f.id not in st.env:
            return ev_args(eng, node, st, lambda s1, a, kw: b(eng, s1, node, a, kw, k, ctx), ctx)
        if f.id in ("warn", "print"):
            return k(st, VNONE)       # messages are dropped (DESIGN 2.1): their arguments are not evaluated
        # class constructor
        if f.id in R.CLASSES:
            return ev_args(eng, node, st, lambda s1, a, kw: construct(eng, s1, f.id, a, kw, node, k, ctx), ctx)
        mod = eng.key.split(".")[0]
        key = f"{mod}.{f.id}"
        if key in R.CONTRACTS:
            return ev_args(eng, node, st, lambda s1, a, kw: eng.call_contract(s1, key, a, kw, node, k, ctx), ctx)
        alias = R.IMPORT_ALIASES.get((mod, f.id))
        if alias is None and eng.sources is not None:
            eng.sources.module(mod)
            alias = eng.sources.imports.get(mod, {}).get(f.id)
        if alias and alias in R.CONTRACTS:
            return ev_args(eng, node, st, lambda s1, a, kw: eng.call_contract(s1, alias, a, kw, node, k, ctx), ctx)
        if alias and alias in R.EXTERNALS:
            return ev_args(eng, node, st, lambda s1, a, kw: eng.ext_call(alias, s1, node, a, kw, k, ctx), ctx)
        if f.id in R.EXTERNALS:
            return ev_args(eng, node, st, lambda s1, a, kw: eng.ext_call(f.id, s1, node, a, kw, k, ctx), ctx)
        raise Unsupported(f"call of {f.id}: no contract, builtin or external")
    if isinstance(f, ast.Attribute):
        # module-level dotted externals (np.sum, copy.deepcopy, rdDescriptors.HeavyAtomMolWt ...)
        root = f
        while isinstance(root, ast.Attribute):
            root = root.value
        if isinstance(root, ast.Name) and root.id not in st.env and name is not None:
            if name in R.EXTERNALS:
                return ev_args(eng, node, st, lambda s1, a, kw: eng.ext_call(name, s1, node, a, kw, k, ctx), ctx)
            mod = eng.key.split(".")[0]
            if root.id in R.MODULE_GLOBALS.get(mod, {}):
                pass
            elif root.id in R.CLASSES or True:
                # e.g. self.flory_schulz_gen(...) never reaches here (root is self); unknown module call
                if root.id not in R.MODULE_GLOBALS.get(mod, {}):
                    raise Unsupported(f"external {name} not declared")

        def on_recv(s1, recv):
            return ev_args(eng, node, s1, lambda s2, a, kw: method_call(eng, s2, recv, f.attr, a, kw, node, k, ctx), ctx)
        return eng.ev(f.value, st, on_recv, ctx)
    raise Unsupported("call form")


def method_call(eng, st, recv, meth, args, kwargs, node, k, ctx):
    if recv.s[0] == "ref":
        return eng.call_method(st, recv, meth, args, kwargs, node, k, ctx)
    lr = lift(recv) if recv.s == PY and isinstance(recv.t, str) else recv
    if lr.s == STR:
        h = R.EXTERNALS.get("str." + meth)
        if h is None:
            raise Unsupported(f"str.{meth}")
        return h(eng, st, node, [lr] + args, kwargs, k, ctx)
    if recv.s[0] == "list":
        h = R.EXTERNALS.get("list." + meth)
        if h is None:
            raise Unsupported(f"list.{meth}")
        return h(eng, st, node, [recv] + args, kwargs, k, ctx)
    if recv.s[0] == "opq":
        h = R.EXTERNALS.get(f"{recv.s[1]}.{meth}")
        if h is None:
            raise Unsupported(f"opaque method {recv.s[1]}.{meth}")
        return h(eng, st, node, [recv] + args, kwargs, k, ctx)
    if recv.s == ("exc",):
        return k(st, VNONE)     # methods of a caught exception object (attach_mol ...) only decorate the exception
    if recv.s == NONE:
        return eng.throw(st, "AttributeError", node, ctx)
    if recv.s[0] == "opt":
        raise Unsupported("method on optional scalar")
    raise Unsupported(f"method {meth} on {recv}")


def construct(eng, st, cname, args, kwargs, node, k, ctx):
    key = eng.method_key(cname, "__init__")
    if key is None:
        raise Unsupported(f"constructor {cname} has no contract")
    c = R.CONTRACTS[key]
    oid = eng.new_object(st, cname, GEN)
    selfv = V(Ref(cname), oid)
    # fields of a fresh object are arbitrary until __init__'s postcondition says otherwise
    return eng.call_contract(st, key, [selfv] + args, kwargs, node, lambda s1, _: k(s1, selfv), ctx)


# ---------------------------------------------------------------------- builtins
def b_len(eng, st, node, a, kw, k, ctx):
    v = a[0]
    if v.s[0] == "list":
        return k(st, V(INT, eng.list_len(st, v)))
    if v.s[0] == "dict":
        return k(st, V(INT, eng.dict_len(st, v)))
    if v.s == PY:
        return k(st, py(len(v.t)))
    if v.s == STR:
        return k(st, V(INT, z3.Length(v.t)))
    if v.s[0] == "tuple":
        return k(st, py(len(v.t)))
    if v.s[0] == "ref":
        return eng.call_method(st, v, "__len__", [], {}, node, k, ctx)
    if v.s[0] == "opq":
        return method_call(eng, st, v, "__len__", [], {}, node, k, ctx)
    if v.s == NONE or v.s[0] == "opt":
        raise Unsupported("len of optional")
    raise Unsupported(f"len of {v}")


def b_range(eng, st, node, a, kw, k, ctx):
    if len(a) == 1:
        return k(st, V(("range",), (py(0), a[0])))
    if len(a) == 2:
        return k(st, V(("range",), (a[0], a[1])))
    raise Unsupported("range with step")


def b_enumerate(eng, st, node, a, kw, k, ctx):
    return k(st, V(("enumerate",), a[0]))


def b_isinstance(eng, st, node, a, kw, k, ctx):
    v, c = a
    names = []
    for x in (c.t if c.s[0] == "tuple" else [c]):
        if x.s != ("name",):
            raise Unsupported("isinstance class")
        names.append(x.t.split(".")[-1])
    if v.s[0] == "ref":
        cl = []
        for n in names:
            if n in R.CLASSES:
                cl += R.subclasses(n)
        possible = []
        for c0 in classes_of(v.s):
            possible += R.subclasses(c0)
        if all(p in cl for p in possible) and not v.s[2]:
            return k(st, py(True))
        if not any(p in cl for p in possible):
            return k(st, py(False))
        tag = z3.Select(eng.arr(st, "obj.tag"), v.t)
        return k(st, V(BOOL, z3.And(v.t != 0, z3.Or([tag == R.CLASS_IDS[c1] for c1 in cl]))))
    kind = {"str": STR, "int": INT, "float": REAL}
    if len(names) == 1 and names[0] in kind:
        lv = lift(v) if v.s == PY else v
        return k(st, py(lv.s == kind[names[0]]))
    # value of a scalar sort is never an instance of a repository class
    if all(n in R.CLASSES for n in names) and v.s[0] in ("str", "int", "real", "bool", "none", "list", "py", "opt"):
        return k(st, py(False))
    raise Unsupported(f"isinstance({v}, {names})")


def b_int(eng, st, node, a, kw, k, ctx):
    v = a[0]
    if v.s == PY:
        try:
            return k(st, py(int(v.t)))
        except ValueError:
            return eng.throw(st, "ValueError", node, ctx)
    if v.s == INT:
        return k(st, v)
    if v.s == BOOL:
        return k(st, V(INT, z3.If(v.t, 1, 0)))
    if v.s == REAL:
        eng.assumption_log.add("int(float) truncation is modelled for non-negative values (ToInt), negative values undecided")
        return k(st, V(INT, z3.If(v.t >= 0, z3.ToInt(v.t), -z3.ToInt(-v.t))))
    if v.s[0] == "enum":
        return k(st, V(INT, v.t))
    if v.s == STR:
        # parse: abstract; may raise ValueError
        s2 = st.fork()
        ok = fresh("int_ok", z3.BoolSort())
        s2.assume(z3.Not(ok))
        eng.throw(s2, "ValueError", node, ctx)
        st.assume(ok)
        r = fresh("int_of", z3.IntSort())
        st.assume(eng.parse_int_fn()(v.t) == r)
        return k(st, V(INT, r))
    if v.s[0] == "opt":
        # int(None) is a TypeError; otherwise int of the value
        s2 = st.fork()
        s2.assume(v.t[0])
        if eng.feasible(s2):
            eng.throw(s2, "TypeError", node, ctx)
        st.assume(z3.Not(v.t[0]))
        return b_int(eng, st, node, [V(v.s[1], v.t[1])], kw, k, ctx)
    raise Unsupported(f"int({v})")


def b_float(eng, st, node, a, kw, k, ctx):
    v = a[0]
    if v.s == PY:
        try:
            return k(st, py(float(v.t)))
        except ValueError:
            return eng.throw(st, "ValueError", node, ctx)
    if v.s in (INT, REAL, BOOL):
        return k(st, V(REAL, to_real(v)))
    if v.s == STR:
        s2 = st.fork()
        okf = eng.parse_float_ok()(v.t)
        s2.assume(z3.Not(okf))
        eng.throw(s2, "ValueError", node, ctx)
        st.assume(okf)
        return k(st, V(REAL, eng.parse_float_fn()(v.t)))
    if v.s[0] == "opt":
        s2 = st.fork()
        s2.assume(v.t[0])
        eng.throw(s2, "TypeError", node, ctx)
        st.assume(z3.Not(v.t[0]))
        return b_float(eng, st, node, [V(v.s[1], v.t[1])], kw, k, ctx)
    if v.s == ("lit",):
        from .externals import lit_arity, lit_num
        s2 = st.fork()
        s2.assume(lit_arity(v.t) != 0)
        eng.throw(s2, "TypeError", node, ctx)       # float(tuple)
        st.assume(lit_arity(v.t) == 0)
        return k(st, V(REAL, lit_num(v.t, z3.IntVal(0))))
    raise Unsupported(f"float({v})")


def b_str(eng, st, node, a, kw, k, ctx):
    return eng.to_str(st, a[0], node, k, ctx)


def b_abs(eng, st, node, a, kw, k, ctx):
    v = a[0]
    if v.s == PY:
        return k(st, py(abs(v.t)))
    if v.s[0] == "opt":
        s2 = st.fork()
        s2.assume(v.t[0])
        eng.throw(s2, "TypeError", node, ctx)
        st.assume(z3.Not(v.t[0]))
        v = V(v.s[1], v.t[1])
    if v.s[0] == "ref":
        return eng.throw(st, "TypeError", node, ctx)
    lv = lift(v)
    return k(st, V(lv.s, z3.If(lv.t >= 0, lv.t, -lv.t)))


def b_bool(eng, st, node, a, kw, k, ctx):
    return k(st, V(BOOL, eng.truth(st, a[0])))


def b_list(eng, st, node, a, kw, k, ctx):
    if not a:
        return k(st, eng.new_list(st, None, z3.IntVal(0)))
    v = a[0]
    if v.s[0] == "list":
        return k(st, eng.new_list(st, v.s[1], eng.list_len(st, v), eng.list_elems(st, v)))
    raise Unsupported(f"list({v})")


def b_min(eng, st, node, a, kw, k, ctx):
    x, y = lift(a[0]), lift(a[1])
    if x.s == INT and y.s == INT:
        return k(st, V(INT, z3.If(x.t <= y.t, x.t, y.t)))
    return k(st, V(REAL, z3.If(to_real(x) <= to_real(y), to_real(x), to_real(y))))


def b_max(eng, st, node, a, kw, k, ctx):
    x, y = lift(a[0]), lift(a[1])
    if x.s == INT and y.s == INT:
        return k(st, V(INT, z3.If(x.t >= y.t, x.t, y.t)))
    return k(st, V(REAL, z3.If(to_real(x) >= to_real(y), to_real(x), to_real(y))))


BUILTINS = {"len": b_len, "range": b_range, "enumerate": b_enumerate, "isinstance": b_isinstance, "int": b_int,
            "float": b_float, "str": b_str, "abs": b_abs, "bool": b_bool, "list": b_list, "min": b_min, "max": b_max}

R.IMPORT_ALIASES = {}


def import_alias(module, name, target):
    R.IMPORT_ALIASES[(module, name)] = target


R.import_alias = import_alias


def ev_listcomp(eng, node, st, k, ctx):
    """[f(x) for x in xs]  over a symbolic list: result list with an element-wise definition.
    Supported element expressions: pure expressions of x (no raising paths are modelled except via handlers)."""
    if len(node.generators) != 1 or node.generators[0].ifs or not isinstance(node.generators[0].target, ast.Name):
        raise Unsupported("list comprehension form")
    gen = node.generators[0]
    var = gen.target.id

    def on_iter(s1, it):
        if it.s[0] != "list":
            raise Unsupported(f"comprehension over {it}")
        ln = eng.list_len(s1, it)
        lnv = z3.simplify(ln)
        from .specs import SpecEval
        if z3.is_int_value(lnv):
            n = lnv.as_long()
            vals = []

            def go(i, s2):
                if i == n:
                    vs = [lift(v) if v.s == PY else v for v in vals]
                    if not vs:
                        return k(s2, eng.new_list(s2, None, z3.IntVal(0)))
                    es = vs[0].s
                    a = fresh("lc", z3.ArraySort(z3.IntSort(), z3.RealSort() if es == REAL else (z3.StringSort() if es == STR else z3.IntSort())))
                    for j, v in enumerate(vs):
                        a = z3.Store(a, j, eng.coerce(v, es).t)
                    return k(s2, eng.new_list(s2, es, z3.IntVal(n), a))
                s2.env = dict(s2.env)
                s2.env[var] = eng.list_get(s2, it, z3.IntVal(i))
                return eng.ev(node.elt, s2, lambda s3, v: (vals.append(v), go(i + 1, s3))[1], ctx)
            return go(0, s1)
        # symbolic length: element expression evaluated under a binder
        i = z3.Int(f"lc!{next(_fresh)}")
        sub_st = s1.fork()
        sub_st.env = dict(s1.env)
        n0 = len(sub_st.pc)
        sub_st.env[var] = eng.list_get(sub_st, it, i)
        se = SpecEval(eng, sub_st, pre_state=s1.old)
        el = node.elt
        if (isinstance(el, ast.Call) and isinstance(el.func, ast.Name) and el.func.id == "float" and len(el.args) == 1 and isinstance(el.args[0], ast.Name)
                and el.args[0].id == var and it.s[1] == STR):
            # [float(w) for w in texts]: ValueError if some text is not a number, else the parsed numbers (parse_float: uninterpreted function of the text)
            from .specs import UFUNCS
            s_bad = s1.fork()
            okv = fresh("floats_ok", z3.BoolSort())
            s_bad.assume(z3.Not(okv))
            eng.throw(s_bad, "ValueError", node, ctx)
            s1.assume(okv)
            pf = UFUNCS["parse_float"][2]
            return k(s1, eng.new_list(s1, REAL, ln, z3.Lambda([i], pf(sub_st.env[var].t))))
        try:
            v = se.eval(node.elt)
        except Unsupported as e:
            raise Unsupported(f"comprehension element not pure: {e}")
        v = lift(v) if v.s == PY else v
        facts = sub_st.pc[n0:]
        if v.s[0] == "opt":
            # a list of optionals is used as numbers right away (np.sum / division): None anywhere is a TypeError there
            s2 = s1.fork()
            s2.assume(z3.Exists([i], z3.And(i >= 0, i < ln, v.t[0])))
            if eng.feasible(s2):
                eng.throw(s2, "TypeError", node, ctx)
            s1.assume(z3.ForAll([i], z3.Implies(z3.And(i >= 0, i < ln), z3.Not(v.t[0]))))
            eng.assumption_log.add("a comprehension of optional numbers raises TypeError at construction if an element is None (in the code it is raised by the arithmetic that follows)")
            v = V(v.s[1], v.t[1])
        es = v.s
        for fct in facts:
            s1.assume(z3.ForAll([i], fct))
        new = z3.Lambda([i], v.t)
        return k(s1, eng.new_list(s1, es, ln, new))
    return eng.ev(gen.iter, st, on_iter, ctx)
