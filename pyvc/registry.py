"""Registry of sidecar contracts.  Contract files in /verif/contracts call these functions.

Nothing here holds code of the repository: a contract names a function by key
`module.Class.method[.closure...]` and the engine extracts that function from /repo on every run.
"""
import ast
import textwrap

CLASSES = {}      # class name -> {'fields': {name: sort}, 'module': str, 'bases': [..]}
CONTRACTS = {}    # key -> Contract
SPECFNS = {}      # name -> (argnames, ast expression)   pure spec functions, inlined
LEMMAS = {}       # name -> Lemma
EXTERNALS = {}    # dotted call name -> handler(engine, st, node, args, kwargs, k)
MODULE_GLOBALS = {}  # module -> {name: sort}   mutable module globals (modelled as ghost-heap scalars)
CLASS_IDS = {}


def cls(name, module, bases=(), **fields):
    CLASSES[name] = {"fields": dict(fields), "module": module, "bases": list(bases)}
    CLASS_IDS.setdefault(name, len(CLASS_IDS) + 1)


def class_fields(name):
    """fields including inherited ones"""
    out = {}
    c = CLASSES[name]
    for b in c["bases"]:
        if b in CLASSES:
            out.update(class_fields(b))
    out.update(c["fields"])
    return out


def field_owner(cname, fname):
    """class in whose array the field lives (the class that declares it)"""
    c = CLASSES[cname]
    if fname in c["fields"]:
        return cname
    for b in c["bases"]:
        if b in CLASSES:
            o = field_owner(b, fname)
            if o:
                return o
    return None


def subclasses(name):
    out = [name]
    for c, d in CLASSES.items():
        if name in d["bases"]:
            out += subclasses(c)
    return out


class Contract:
    def __init__(self, key, **kw):
        self.key = key
        self.params = kw.pop("params", {})          # name -> sort (ordered)
        self.captured = kw.pop("captured", {})      # closure variables -> sort
        self.returns = kw.pop("returns", None)
        self.requires = kw.pop("requires", [])
        self.ensures = kw.pop("ensures", [])
        self.raises = kw.pop("raises", {})          # Exc -> cond (iff, evaluated in the pre-state)
        self.raises_may = kw.pop("raises_may", {})  # Exc -> cond (only-if)
        self.modifies = kw.pop("modifies", [])      # "Class.field" | "list" | "ghost.name" | "global.mod.name"
        self.ghost_on_return = kw.pop("ghost_on_return", [])
        self.loops = kw.pop("loops", {})
        self.props = kw.pop("props", [])
        self.is_property = kw.pop("is_property", False)
        self.value = kw.pop("value", None)          # pure getter: spec expression of `self` that equals the result (usable inside specs / comprehensions)
        self.defaults = kw.pop("defaults", {})      # param -> python default ('None')
        self.trusted = kw.pop("trusted", False)     # contract assumed, body not verified
        self.why_trusted = kw.pop("why_trusted", "")
        self.allocates = kw.pop("allocates", True)   # may the callee allocate objects?
        self.yield_ensures = kw.pop("yield_ensures", [])
        self.frame_on_raise = kw.pop("frame_on_raise", False)
        self.ghost_on_yield = kw.pop("ghost_on_yield", [])
        self.writes_owner = kw.pop("writes_owner", None)  # 'GEN': every heap write must hit a GEN-owned object
        self.merge_ifs = kw.pop("merge_ifs", False)       # if-conversion of `if c: x = CONST` (engine.merge_simple_if): opt-in, for functions with long chains of such ifs
        self.allocs_owner = kw.pop("allocs_owner", None)  # 'LOCAL': objects this function allocates itself (not its callees) belong to neither notation nor generator
        self.result_fresh = kw.pop("result_fresh", False)
        self.labels = kw.pop("labels", {})          # clause text -> short label used in obligation names
        self.note = kw.pop("note", "")
        self.inline_depth = kw.pop("inline_depth", 0)
        self.ghost_at = kw.pop("ghost_at", {})     # anchor (ast.unparse of a statement) -> [ghost stmts] run after it
        self.ghost_before = kw.pop("ghost_before", {})  # anchor -> [ghost stmts] run before the statement
        self.clause_props = kw.pop("clause_props", {})   # obligation detail (label / kind[detail]) -> properties; default: contract props[0:1] for unlisted when given
        self.from_lemmas = kw.pop("from_lemmas", {})   # ensures label -> earlier clauses it follows from (together with the entry facts only)
        self.use_lemmas = kw.pop("use_lemmas", {})   # ensures label -> labels of earlier ensures clauses used as lemmas for it
        self.abstract = kw.pop("abstract", [])      # blocks of statements replaced by a havoc of locals (checked syntactically)
        self.lemmas_at = kw.pop("lemmas_at", {})
        self.unroll = kw.pop("unroll", {})          # loop ordinal -> max iterations (bounded proof, P<=n)
        self.scenarios = kw.pop("scenarios", None)
        self.ensures_on_raise = kw.pop("ensures_on_raise", [])   # clauses that must hold whenever the function exits by an exception (state left behind)
        self.assumes = kw.pop("assumes", [])        # object invariants of parsed notation objects ASSUMED at entry (not obligations of callers): established by
                                                    # constructors outside the engine's reach, checked natively by the bounded drivers, listed in evidence
        self.assert_at = kw.pop("assert_at", {})   # anchor (first line of a statement) -> [clauses] proved right after that statement ("site" obligations: what holds at a decision site)
        self.uses = kw.pop("uses", {})               # ensures label -> tags of the QUANTIFIED hypotheses its proof may use (all quantifier-free ones are kept); sound: fewer hypotheses
        self.opaque_final_heap = kw.pop("opaque_final_heap", False)   # keep the named final-heap arrays opaque in reads (lemma-only sub-proofs rely on it)
        self.reads = kw.pop("reads", None)           # read frame: heap arrays the function may read (checked)  # list of dicts: extra requires per scenario (bounded structural cases)
        if kw:
            raise TypeError(f"contract {key}: unknown options {list(kw)}")


def contract(key, **kw):
    CONTRACTS[key] = Contract(key, **kw)
    return CONTRACTS[key]


def specfn(fn_src):
    """Register a pure spec function given as python source text `def f(a, b): return <expr>`."""
    tree = ast.parse(textwrap.dedent(fn_src))
    fd = tree.body[0]
    assert isinstance(fd, ast.FunctionDef)
    body = [s for s in fd.body if not (isinstance(s, ast.Expr) and isinstance(s.value, ast.Constant))]
    assert len(body) == 1 and isinstance(body[0], ast.Return), "spec functions are single-expression"
    SPECFNS[fd.name] = ([a.arg for a in fd.args.args], body[0].value, textwrap.dedent(fn_src))


class Lemma:
    def __init__(self, name, vars, hyps, goal, props=(), induct=None, note="", expect_refuted=False):
        self.name, self.vars, self.hyps, self.goal = name, vars, hyps, goal
        self.props, self.induct, self.note = list(props), induct, note
        self.expect_refuted = expect_refuted     # the statement is expected NOT to follow (documents a known finding formally)


def lemma(name, vars, goal, hyps=(), props=(), induct=None, note="", expect_refuted=False):
    LEMMAS[name] = Lemma(name, vars, list(hyps), goal, props, induct, note, expect_refuted)


def external(name):
    def deco(fn):
        EXTERNALS[name] = fn
        return fn
    return deco


def module_global(module, name, sort):
    MODULE_GLOBALS.setdefault(module, {})[name] = sort
