"""pyvc: verification-condition generator for a subset of Python.

Reads the real source text of a function (ast), executes it symbolically path by path in
continuation-passing style, replaces callees by their contracts, cuts loops at invariants, and
emits obligations  hyps => goal  as z3 formulas.  Nothing is cached between runs.

Semantics assumed (recorded in evidence): int is mathematical; float is a mathematical real;
object references are integers (0 = None) into per-(class, field) arrays; a list is a heap object
with a length and an element array; truthiness as in Python.
"""
import ast
import itertools
import sys

import z3

from . import registry as R
from .sorts import (BOOL, IDS, INT, NONE, PY, REAL, STR, Enum, List, NList, NRef, Opaque, Opt, Ref,
                    Tuple, classes_of, is_intlike, is_list, is_ref, nullable, show)

sys.setrecursionlimit(20000)

EXC_PARENTS = {
    "Exception": None, "RuntimeError": "Exception", "ValueError": "Exception", "IndexError": "LookupError",
    "KeyError": "LookupError", "LookupError": "Exception", "TypeError": "Exception",
    "AttributeError": "Exception", "ZeroDivisionError": "ArithmeticError", "ArithmeticError": "Exception",
    "NotImplementedError": "RuntimeError", "FfAssignmentError": "Exception", "AssertionError": "Exception",
    "StopIteration": "Exception", "SyntaxError": "Exception",
}


def exc_isa(e, parent):
    while e is not None:
        if e == parent:
            return True
        e = EXC_PARENTS.get(e)
    return False


class Unsupported(Exception):
    """construct outside the modelled subset: the function becomes undecided, never a violation"""


class V:
    __slots__ = ("s", "t")

    def __init__(self, s, t):
        self.s, self.t = s, t

    def __repr__(self):
        return f"V({show(self.s)}, {self.t})"


def py(x):
    return V(PY, x)


VNONE = V(NONE, None)
GEN, NOTATION, LOCAL = 1, 0, 2

_fresh = itertools.count()


def fresh(prefix, sort):
    n = f"{prefix}!{next(_fresh)}"
    return z3.Const(n, sort)


def _is_fresh_id(t):
    """alloc constant + positive numeral: the id of an object allocated after function entry"""
    if z3.is_add(t) and t.num_args() == 2:
        a, b = t.arg(0), t.arg(1)
        if z3.is_int_value(a):
            a, b = b, a
        if z3.is_int_value(b) and b.as_long() >= 1 and z3.is_const(a) and a.decl().kind() == z3.Z3_OP_UNINTERPRETED:
            n = a.decl().name()
            return n == "alloc0" or n.startswith("alloc!")
    return False


def _is_alloc_bound(t):
    """alloc constant (+ non-negative numeral) (+ non-negative list length ...): a bound that is >= alloc0"""
    t = z3.simplify(t)
    if z3.is_const(t) and t.decl().kind() == z3.Z3_OP_UNINTERPRETED:
        n = t.decl().name()
        return n == "alloc0" or n.startswith("alloc!")
    if z3.is_add(t):
        ok_alloc = False
        for c in t.children():
            if z3.is_int_value(c):
                if c.as_long() < 0:
                    return False
            elif z3.is_const(c) and c.decl().kind() == z3.Z3_OP_UNINTERPRETED and (c.decl().name() == "alloc0" or c.decl().name().startswith("alloc!")):
                ok_alloc = True
            elif z3.is_app(c) and c.decl().kind() == z3.Z3_OP_SELECT and z3.is_const(c.arg(0)) and "list.len" in c.arg(0).decl().name():
                pass            # a list length (>= 0 for existing lists; the engine only adds lengths of existing lists to alloc)
            else:
                return False
        return ok_alloc
    return False


def _alloc_lambda_old(a):
    """a = (lambda o. if o <= B then old[o] else junk[o]) with B >= alloc0  (effect of a callee / loop that may allocate):  old"""
    if not z3.is_quantifier(a) or not a.is_lambda() or a.num_vars() != 1:
        return None
    b = a.body()
    if not z3.is_app(b) or b.decl().kind() != z3.Z3_OP_ITE:
        return None
    c, t, _e = b.children()
    if not (z3.is_app(c) and c.decl().kind() == z3.Z3_OP_LE and z3.is_var(c.arg(0)) and _is_alloc_bound(c.arg(1))):
        return None
    if z3.is_app(t) and t.decl().kind() == z3.Z3_OP_SELECT and z3.is_var(t.arg(1)):
        old = t.arg(0)
        # the old array must not mention the bound variable
        return old if not _mentions_var(old) else None
    return None


def _mentions_var(t):
    stack, seen = [t], set()
    while stack:
        x = stack.pop()
        if x.get_id() in seen:
            continue
        seen.add(x.get_id())
        if z3.is_var(x):
            return True
        if z3.is_quantifier(x):
            continue
        stack.extend(x.children())
    return False


def _is_h0_array(a):
    """an array of the entry heap: H0!<name>, or a row of one (select(H0!list.I, l))"""
    while z3.is_app(a) and a.decl().kind() == z3.Z3_OP_SELECT:
        a = a.arg(0)
    return z3.is_const(a) and a.decl().kind() == z3.Z3_OP_UNINTERPRETED and a.decl().name().startswith("H0!")


def _is_prestate_ref(t, params):
    """a value READ FROM THE ENTRY HEAP (select(H0!.., i), any index) or a parameter: a reference that existed at function entry.
    Assumption recorded in evidence: heap well-formedness at entry -- no cell of the entry heap holds a reference to an object
    that does not exist yet."""
    if z3.is_const(t) and t.decl().kind() == z3.Z3_OP_UNINTERPRETED:
        return t.decl().name() in params or t.decl().name().startswith("G0!")      # a parameter, or the entry value of a ghost / global reference
    return z3.is_app(t) and t.decl().kind() == z3.Z3_OP_SELECT and _is_h0_array(t.arg(0))


LOOK_THROUGH_FINAL = [True]   # off for contracts that prove clauses from lemmas alone (there the F! constants must stay opaque)
ARRAY_DEFS = {}     # name of a final-heap constant F!<array> -> the term it is defined by (verify.exit_normal)


ALLOC_LB = {}       # alloc!k -> (name of an earlier alloc constant, n): alloc!k >= that constant + n  (recorded where alloc!k is created)


def _alloc_form(t):
    """t = A + c (+ non-negative list lengths) with A an alloc constant: (A's name, c, has_len_terms); else None"""
    t = z3.simplify(t)
    if z3.is_const(t) and t.decl().kind() == z3.Z3_OP_UNINTERPRETED:
        n = t.decl().name()
        return (n, 0, False) if (n == "alloc0" or n.startswith("alloc!")) else None
    if z3.is_add(t):
        name, c, lens = None, 0, False
        for x in t.children():
            if z3.is_int_value(x):
                c += x.as_long()
            elif z3.is_const(x) and x.decl().kind() == z3.Z3_OP_UNINTERPRETED and (x.decl().name() == "alloc0" or x.decl().name().startswith("alloc!")):
                if name is not None:
                    return None
                name = x.decl().name()
            elif z3.is_app(x) and x.decl().kind() == z3.Z3_OP_SELECT and z3.is_const(x.arg(0)) and "list.len" in x.arg(0).decl().name():
                lens = True
            else:
                return None
        return (name, c, lens) if name is not None else None
    return None


def record_alloc(new_const, old_term):
    f = _alloc_form(old_term)
    if f is not None:
        ALLOC_LB[new_const.decl().name()] = (f[0], f[1])       # new >= A + c (+ lengths >= 0)


def _lower_bound_over(name, base):
    """largest known n with  name >= base + n ; None if base is not below name in the allocation chain"""
    n, cur = 0, name
    for _ in range(1000):
        if cur == base:
            return n
        if cur not in ALLOC_LB:
            return None
        cur, d = ALLOC_LB[cur][0], ALLOC_LB[cur][1]
        n += d
    return None


TERM_BOUNDS = {}     # id of a reference term -> ((A, c), (B, d)):  A + c < term <= B + d  (learnt from `fresh(E)` clauses of callees: allocated during that call)


def _form_le(f, g):
    """(X, c) <= (Y, d) as allocation forms: True if certainly X + c <= Y + d, else None"""
    (x, c), (y, d) = f, g
    if x == y:
        return True if c <= d else None
    lb = _lower_bound_over(y, x)        # y >= x + lb
    if lb is not None and lb + d >= c:
        return True
    return None


def _ref_interval(t, params):
    """(lo, hi) with lo < t <= hi as allocation forms (name, offset); lo None = no lower bound known (an entry-state reference: hi = alloc0)"""
    if _is_prestate_ref(t, params):
        return None, ("alloc0", 0)
    f = _alloc_form(t)
    if f is not None and not f[2]:
        return (f[0], f[1] - 1), (f[0], f[1])
    return TERM_BOUNDS.get(t.get_id())


def _le_bound(idx, bound, params):
    """is idx <= bound?  True / False / None (unknown).  idx: a reference term; bound: an allocation bound"""
    bf = _alloc_form(bound)
    if bf is None:
        return None
    iv = _ref_interval(idx, params)
    if iv is None:
        return None
    lo, hi = iv
    if _form_le(hi, (bf[0], bf[1])):          # idx <= hi <= bound (+ lengths >= 0)
        return True
    if lo is not None and not bf[2] and _form_le((bf[0], bf[1]), lo):      # bound <= lo < idx
        return False
    return None


def _distinct_refs(i, j, params):
    """are the two reference terms certainly different objects?"""
    a, b = _ref_interval(i, params), _ref_interval(j, params)
    if a is None or b is None:
        return False
    (alo, ahi), (blo, bhi) = a, b
    if blo is not None and _form_le(ahi, blo):      # i <= ahi <= blo < j
        return True
    if alo is not None and _form_le(bhi, alo):
        return True
    return False


def _alloc_lambda_parts(a):
    """a = (lambda o. if o <= B then old[o] else junk[o]):  (B, old, junk)"""
    if not z3.is_quantifier(a) or not a.is_lambda() or a.num_vars() != 1:
        return None
    b = a.body()
    if not z3.is_app(b) or b.decl().kind() != z3.Z3_OP_ITE:
        return None
    c, t, e = b.children()
    if not (z3.is_app(c) and c.decl().kind() == z3.Z3_OP_LE and z3.is_var(c.arg(0)) and _alloc_form(c.arg(1)) is not None):
        return None
    if all(z3.is_app(x) and x.decl().kind() == z3.Z3_OP_SELECT and z3.is_var(x.arg(1)) and not _mentions_var(x.arg(0)) for x in (t, e)):
        return c.arg(1), t.arg(0), e.arg(0)
    return None


def heap_select(arr, idx, params):
    """Select(arr, idx) with the heap's structure resolved where the allocation order decides it:
    stores at other objects are skipped, "callee may have allocated" lambdas are entered on the side idx lies on.
    Facts used: an entry-state reference (read from an H0! array, or a parameter) is <= alloc0; every alloc!k is >= the bound it was
    created from (ALLOC_LB); ids are alloc + positive numeral."""
    if params is None:
        return z3.simplify(z3.Select(arr, idx))
    idx_s = z3.simplify(idx)
    a = arr
    if LOOK_THROUGH_FINAL[0] and z3.is_const(a) and a.decl().kind() == z3.Z3_OP_UNINTERPRETED and a.decl().name() in ARRAY_DEFS \
            and _is_prestate_ref(idx_s, params):
        a = ARRAY_DEFS[a.decl().name()]       # a named final-heap array: look through its defining term
    for _ in range(200):
        if z3.is_app(a) and a.decl().kind() == z3.Z3_OP_STORE:
            i = z3.simplify(a.arg(1))
            if i.eq(idx_s):
                return z3.simplify(a.arg(2))
            if _distinct_refs(i, idx_s, params):
                a = a.arg(0)
                continue
            if _is_prestate_ref(idx_s, params) and _is_prestate_ref(i, params):
                # two entry-state references that may or may not be the same object: split, and keep resolving underneath
                return z3.simplify(z3.If(idx_s == i, a.arg(2), heap_select(a.arg(0), idx_s, params)))
            break
        parts = _alloc_lambda_parts(a)
        if parts is not None:
            side = _le_bound(idx_s, parts[0], params)
            if side is True:
                a = parts[1]
                continue
            if side is False:
                a = parts[2]
                continue
        break
    return z3.simplify(z3.Select(a, idx_s))


def z3sort(s):
    k = s[0]
    if is_intlike(s):
        return z3.IntSort()
    if k == "real":
        return z3.RealSort()
    if k == "bool":
        return z3.BoolSort()
    if k == "str":
        return z3.StringSort()
    raise Unsupported(f"no scalar z3 sort for {show(s)}")


def initial_value(prefix, s):
    """entry value of a ghost / global: a constant with a fixed name, so that every path sees the same one"""
    k = s[0]
    if k in ("opt",):
        return V(s, (z3.Const(prefix + "#n", z3.BoolSort()), initial_value(prefix + "#v", s[1]).t))
    if k == "ids":
        return V(s, (z3.Const(prefix + "#n", z3.BoolSort()), z3.Const(prefix + "#v", z3.IntSort())))
    if k == "map":
        return V(s, z3.Const(prefix, z3.ArraySort(z3sort(s[1]), z3sort(s[2]))))
    if k == "none":
        return VNONE
    return V(s, z3.Const(prefix, z3sort(s)))


def fresh_value(prefix, s):
    k = s[0]
    if k in ("opt",):
        return V(s, (fresh(prefix + "#n", z3.BoolSort()), fresh_value(prefix + "#v", s[1]).t))
    if k == "ids":
        return V(s, (fresh(prefix + "#n", z3.BoolSort()), fresh(prefix + "#v", z3.IntSort())))
    if k == "tuple":
        return V(s, tuple(fresh_value(f"{prefix}#{i}", x) for i, x in enumerate(s[1])))
    if k == "none":
        return VNONE
    if k == "map":
        return V(s, fresh(prefix, z3.ArraySort(z3sort(s[1]), z3sort(s[2]))))
    return V(s, fresh(prefix, z3sort(s)))


class Heap:
    """arrays: name -> z3 array term.  Names: 'Class.field', 'Class.field#n' (none flag of opt/ids),
    'list.len', 'list.I', 'list.R', 'list.S', 'obj.tag', 'obj.owner'."""

    def __init__(self):
        self.arrs = {}
        self.alloc = None

    def copy(self):
        h = Heap()
        h.arrs = dict(self.arrs)
        h.alloc = self.alloc
        return h


# "Class.field@GEN" / "list@GEN": every object that is generator-owned (ghost owner, fixed at allocation) may change -- the frame of code that works on the
# growing molecule, whose identity changes from step to step (deep copies).  In the lists of named objects the sentinel below stands for "all of them"
ALL_GEN = z3.Int("ALL_GEN_OWNED")


def null_guard(expr, env, obj_t):
    """`Class.f@prefix.bond_descriptors` with prefix None names no object (object id 0, which nothing reads), not whatever the fields of None happen to hold"""
    try:
        root = ast.parse(expr.strip(), mode="eval").body
    except SyntaxError:
        return obj_t
    if not isinstance(root, (ast.Attribute, ast.Subscript)):
        return obj_t
    while isinstance(root, (ast.Attribute, ast.Subscript)):
        root = root.value
    if isinstance(root, ast.Call) and root.args:       # old(x.f) ...
        root = root.args[0]
        while isinstance(root, (ast.Attribute, ast.Subscript)):
            root = root.value
    if isinstance(root, ast.Name):
        v = env.get(root.id)
        if v is not None and v.s[0] in ("ref", "list", "opq") and len(v.s) > 2 and v.s[2] and z3.is_expr(v.t):
            return z3.If(v.t == 0, z3.IntVal(0), obj_t)
    return obj_t


# array groups behind the modifies entries "list" / "dict" (and "list@expr" / "dict@expr")
GROUPS = {"list": ("list.len", "list.I", "list.R", "list.S", "list.nan"),
          "dict": ("dict.len", "dict.hasS", "dict.hasI", "dict.SI", "dict.SS", "dict.SR", "dict.IS", "dict.II", "dict.IR")}
_ZS = {"S": z3.StringSort, "I": z3.IntSort, "R": z3.RealSort}


def arr_sort_for(name):
    """z3 sort of the array called `name` (decided by name so that havoc can recreate it)"""
    if name == "dict.len":
        return z3.ArraySort(z3.IntSort(), z3.IntSort())
    if name.startswith("dict.has"):
        return z3.ArraySort(z3.IntSort(), z3.ArraySort(_ZS[name[-1]](), z3.BoolSort()))
    if name.startswith("dict."):
        return z3.ArraySort(z3.IntSort(), z3.ArraySort(_ZS[name[-2]](), _ZS[name[-1]]()))
    if name in ("list.len", "obj.tag", "obj.owner"):
        return z3.ArraySort(z3.IntSort(), z3.IntSort())
    if name == "list.nan":
        return z3.ArraySort(z3.IntSort(), z3.BoolSort())
    if name == "list.I":
        return z3.ArraySort(z3.IntSort(), z3.ArraySort(z3.IntSort(), z3.IntSort()))
    if name == "list.R":
        return z3.ArraySort(z3.IntSort(), z3.ArraySort(z3.IntSort(), z3.RealSort()))
    if name == "list.S":
        return z3.ArraySort(z3.IntSort(), z3.ArraySort(z3.IntSort(), z3.StringSort()))
    if name.startswith("ghost."):
        s = R.GHOSTS[name[6:]]
        return z3sort_of_ghost(s)
    cname, fname = name.split(".", 1)
    flag = fname.endswith("#n")
    if flag:
        return z3.ArraySort(z3.IntSort(), z3.BoolSort())
    fs = R.class_fields(cname)[fname]
    if fs[0] in ("opt",):
        return z3.ArraySort(z3.IntSort(), z3sort(fs[1]))
    if fs[0] == "ids":
        return z3.ArraySort(z3.IntSort(), z3.IntSort())
    return z3.ArraySort(z3.IntSort(), z3sort(fs))


def z3sort_of_ghost(s):
    if s[0] == "map":
        return z3.ArraySort(z3sort(s[1]), z3sort(s[2]))
    return z3sort(s)


R.GHOSTS = {}
R.NAME_CONSTS = {}
R.SCRATCH_OPAQUES = set()


def ghost(name, sort):
    """declare a ghost variable (scalar sort) or ghost map ('map', keysort, valsort)"""
    R.GHOSTS[name] = sort


TAGS = {}       # id of an assumed formula -> where it came from ("<callee>:<clause label>", "requires:<n>", "inv:loop<n>:<label>")


class State:
    def __init__(self):
        self.env = {}
        self.heap = Heap()
        self.pc = []
        self.ghost = {}      # name -> z3 term (scalar or array)
        self.events = []     # ghost event log: list of (kind, payload dict)
        self.old = None      # State at function entry (for old())
        self.loop_entry = None
        self.labels = {}
        self.infeasible = False
        self.wlog = []       # heap / ghost locations written on this path (vocabulary of `modifies`)
        self.index_terms = []   # ground list indices read on this path (instantiation hints)

    def fork(self):
        s = State()
        s.env = dict(self.env)
        s.heap = self.heap.copy()
        s.pc = list(self.pc)
        s.ghost = dict(self.ghost)
        s.events = list(self.events)
        s.old = self.old
        s.loop_entry = self.loop_entry
        s.labels = dict(self.labels)
        s.wlog = list(self.wlog)
        s.index_terms = list(self.index_terms)
        return s

    def assume(self, b, tag=None):
        if b is True or (z3.is_true(b) if z3.is_expr(b) else False):
            return
        self.pc.append(b)
        if tag is not None and z3.is_expr(b):
            TAGS[b.get_id()] = tag


class Ctx:
    """continuations of the enclosing constructs"""

    def __init__(self, k_return, k_raise, k_break=None, k_continue=None):
        self.k_return, self.k_raise, self.k_break, self.k_continue = k_return, k_raise, k_break, k_continue

    def replace(self, **kw):
        c = Ctx(self.k_return, self.k_raise, self.k_break, self.k_continue)
        for a, b in kw.items():
            setattr(c, a, b)
        return c


class Obligation:
    def __init__(self, name, hyps, goal, kind, key, line=None, props=(), text=""):
        self.name, self.hyps, self.goal, self.kind = name, list(hyps), goal, kind
        self.key, self.line, self.props, self.text = key, line, list(props), text
        self.verdict = None
        self.solver = None
        self.seconds = None
        self.model = None
        self.detail = ""


def lift(v, want=None):
    """python constant -> z3 value"""
    if v.s != PY:
        return v
    x = v.t
    if x is None:
        return VNONE
    if isinstance(x, bool):
        return V(BOOL, z3.BoolVal(x))
    if isinstance(x, int):
        if want == REAL:
            return V(REAL, z3.RealVal(x))
        return V(INT, z3.IntVal(x))
    if isinstance(x, float):
        import fractions
        fr = fractions.Fraction(repr(x)) if repr(x) not in ("inf", "-inf", "nan") else None
        if fr is None:
            raise Unsupported("non-finite float constant")
        return V(REAL, z3.RealVal(str(fr)))
    if isinstance(x, str):
        return V(STR, z3.StringVal(x))
    raise Unsupported(f"cannot lift python constant {x!r}")


def to_real(v):
    v = lift(v, REAL)
    if v.s == REAL:
        return v.t
    if v.s == INT:
        return z3.ToReal(v.t)
    if v.s == BOOL:
        return z3.If(v.t, z3.RealVal(1), z3.RealVal(0))
    raise Unsupported(f"not numeric: {v}")


def is_num(v):
    return v.s in (INT, REAL, BOOL) or (v.s == PY and isinstance(v.t, (int, float)) and not isinstance(v.t, bool)) \
        or (v.s == PY and isinstance(v.t, bool))


_RPOW = {}


def power(eng, la, lb):
    """x ** y: small constant natural exponents are expanded; everything else is the uninterpreted real function rpow(x, y)"""
    both_int = la.s in (INT, BOOL) and lb.s in (INT, BOOL)
    if lb.s == INT and z3.is_int_value(z3.simplify(lb.t)) and 0 <= z3.simplify(lb.t).as_long() <= 4:
        x = (la.t if la.s == INT else z3.If(la.t, 1, 0)) if both_int else to_real(la)
        r = z3.IntVal(1) if both_int else z3.RealVal(1)
        for _ in range(z3.simplify(lb.t).as_long()):
            r = r * x
        return V(INT if both_int else REAL, r)
    if "f" not in _RPOW:
        _RPOW["f"] = z3.Function("rpow", z3.RealSort(), z3.RealSort(), z3.RealSort())
    if eng is not None:
        eng.assumption_log.add("x ** y with a non-constant exponent is an uninterpreted real function rpow(x, y)")
    return V(REAL, _RPOW["f"](to_real(la), to_real(lb)))


class Engine:
    def __init__(self, sources, solver_prune=True):
        self.sources = sources            # frontend.Sources
        self.obligations = []
        self.notes = []
        self.key = None
        self.contract = None
        self.reads = set()
        self.writes = set()
        self.prune = solver_prune
        self.covers = []
        self.paths = 0
        self.calls_seen = []
        self.assumption_log = set()
        self.abstracted = []
        self.param_consts = None      # names of the parameter constants (set by verify): enables heap_select's look-through

    # ------------------------------------------------------------------ heap primitives
    def arr(self, st, name):
        a = st.heap.arrs.get(name)
        if a is None:
            a = z3.Const(f"H0!{name}", arr_sort_for(name))
            st.heap.arrs[name] = a
            if st.old is not None and name not in st.old.heap.arrs:
                st.old.heap.arrs[name] = a
            if st.loop_entry is not None and name not in st.loop_entry.heap.arrs:
                st.loop_entry.heap.arrs[name] = a
        return a

    def typing_facts(self, st, v, guard=None):
        """facts true of every well-formed heap value (assumed on read).  `guard`: the condition under which the read location
        is a real location (list index in range, object allocated); cells outside are not constrained, so the facts stay
        sound when they are generalised over a bound variable."""
        s = v.s
        facts = []
        if s[0] in ("ref", "list"):
            facts.append(v.t >= (0 if s[2] else 1))
            facts.append(v.t <= st.heap.alloc)
            if s[0] == "ref":
                cl = []
                for c in classes_of(s):
                    cl += R.subclasses(c)
                tag = z3.Select(self.arr(st, "obj.tag"), v.t)
                tagok = z3.Or([tag == R.CLASS_IDS[c] for c in cl])
                facts.append(z3.Or(v.t == 0, tagok) if s[2] else tagok)
            else:
                ln = z3.Select(self.arr(st, "list.len"), v.t)
                facts.append(ln >= 0)
        elif s[0] == "opq":
            facts.append(v.t >= (0 if s[2] else 1))
        elif s[0] == "senum":
            if not z3.is_int_value(v.t):
                facts.append(z3.And(v.t >= 0, v.t < len(s[2])))
        for f in facts:
            st.assume(f if guard is None else z3.Implies(guard, f), tag="typing")
        return v

    def field_arrays(self, cname, fname):
        owner = R.field_owner(cname, fname)
        if owner is None:
            return None
        return owner

    def load_field(self, st, obj_t, cname, fname):
        owner = R.field_owner(cname, fname)
        fs = R.class_fields(cname)[fname]
        name = f"{owner}.{fname}"
        self.reads.add(name)
        a = self.arr(st, name)
        if fs[0] in ("opt", "ids"):
            n = self.arr(st, name + "#n")
            v = V(fs, (heap_select(n, obj_t, self.param_consts), heap_select(a, obj_t, self.param_consts)))
            return v
        v = V(fs, heap_select(a, obj_t, self.param_consts))
        return self.typing_facts(st, v, guard=z3.And(obj_t >= 1, obj_t <= st.heap.alloc))

    def store_field(self, st, obj_t, cname, fname, val, node=None, init=False):
        """init=True: initialisation of an object allocated by the very operation that stores (not an effect on existing state)"""
        owner = R.field_owner(cname, fname)
        if owner is None:
            c = self.contract
            if c is not None and not init and not (self.key or "").endswith("__init__"):       # a constructor may give its object new attributes
                # a field no contract declares cannot be in any modifies clause: writing it on an object that existed before the call is a write outside
                # the frame (a new attribute on notation / shared state).  Decidable although the rest of the function is not.
                ob_u = self.oblige(st, obj_t > st.old.heap.alloc, "frame", f"{cname}.{fname}", node,
                                   text=f"store to {cname}.{fname}, a field no contract declares, targets an object allocated by this call (otherwise: a write outside the frame)")
                pcs = self.param_consts or ()
                if z3.is_const(obj_t) and obj_t.decl().name() in pcs and self.feasible(st):
                    # the object is a parameter of the function (it existed before the call) and the statement is reachable: decided without the solver, whose
                    # `sat` answers under quantified hypotheses come and go with the variable numbering
                    ob_u.verdict, ob_u.solver, ob_u.seconds, ob_u.preset = "refuted", "syntactic", 0.0, True
                    ob_u.detail = ob_u.model = f"the object written is the parameter {obj_t.decl().name().split('!')[0]}"
            raise Unsupported(f"store to undeclared field {cname}.{fname}")
        fs = R.class_fields(cname)[fname]
        name = f"{owner}.{fname}"
        val = self.coerce(val, fs)
        if fs[0] == "senum" and not z3.is_int_value(z3.simplify(val.t)):
            self.oblige(st, z3.And(val.t >= 0, val.t < len(fs[2])), "sort-inv", f"{name}", node,
                        text=f"value stored in {name} is one of {fs[2]}")
        if not init:
            self.note_write(st, name, obj_t, node)
        a = self.arr(st, name)
        if fs[0] in ("opt", "ids"):
            n = self.arr(st, name + "#n")
            st.heap.arrs[name + "#n"] = z3.Store(n, obj_t, val.t[0])
            st.heap.arrs[name] = z3.Store(a, obj_t, val.t[1])
        else:
            st.heap.arrs[name] = z3.Store(a, obj_t, val.t)

    def note_write(self, st, name, obj_t, node):
        self.writes.add(name)
        st.wlog.append(name)
        c = self.contract
        if c is not None and c.writes_owner == "GEN":
            own = z3.Select(self.arr(st, "obj.owner"), obj_t)
            goal = z3.Or(own == GEN, obj_t > st.old.heap.alloc)
            self.oblige(st, goal, "frame-owner", f"{name}", node,
                        text=f"write to {name} targets a generator-owned or fresh object")

    def coerce(self, v, s):
        """convert value v to sort s (python-level implicit conversions only)"""
        if v.s == s:
            return v
        k = s[0]
        if k == "opt":
            if v.s == NONE or (v.s == PY and v.t is None):
                d = fresh_value("dflt", s[1])
                return V(s, (z3.BoolVal(True), d.t))
            if v.s[0] == "opt":
                return V(s, v.t)
            inner = self.coerce(v, s[1])
            return V(s, (z3.BoolVal(False), inner.t))
        if k == "ids":
            if v.s == STR or (v.s == PY and isinstance(v.t, str)):
                vv = lift(v)
                return V(s, (z3.Length(vv.t) == 0, fresh("idv", z3.IntSort()))) if not (v.s == PY and v.t == "") \
                    else V(s, (z3.BoolVal(True), z3.IntVal(0)))
            if v.s == INT or (v.s == PY and isinstance(v.t, int)):
                return V(s, (z3.BoolVal(False), lift(v).t))
            if v.s == IDS:
                return v
        if k == "real":
            if is_num(v):
                return V(REAL, to_real(v))
            if v.s[0] == "opt" and v.s[1] in (REAL, INT):
                return V(REAL, to_real(V(v.s[1], v.t[1])))
        if k == "int":
            vv = lift(v)
            if vv.s == INT:
                return vv
            if vv.s == BOOL:
                return V(INT, z3.If(vv.t, 1, 0))
            if is_intlike(vv.s):
                return V(INT, vv.t)
        if k == "bool":
            vv = lift(v)
            if vv.s == BOOL:
                return vv
        if k == "str":
            vv = lift(v)
            if vv.s == STR:
                return vv
        if k in ("ref", "list", "opq"):
            if v.s == NONE or (v.s == PY and v.t is None):
                return V(s, z3.IntVal(0))
            if v.s[0] == k:
                return V(s, v.t)
        if k == "senum":
            if v.s == PY and isinstance(v.t, str):
                if v.t not in s[2]:
                    raise Unsupported(f"constant {v.t!r} is not a value of {show(s)}")
                return V(s, z3.IntVal(s[2].index(v.t)))
            if v.s == STR:
                return V(s, self.senum_code(s, v.t))     # -1 when outside the declared values: store_field checks
            if v.s[0] == "senum" and v.s[2] == s[2]:
                return V(s, v.t)
        if k == "str" and v.s[0] == "senum":
            return V(STR, self.senum_text(v))
        if k == "enum":
            if v.s[0] == "enum":
                return V(s, v.t)
            vv = lift(v)
            if vv.s == INT:
                return V(s, vv.t)
        if k == "tuple" and v.s[0] == "tuple":
            return V(s, tuple(self.coerce(x, y) for x, y in zip(v.t, s[1])))
        if k == "dict" and v.s[0] == "dict" and v.s[1] == ("unk",):
            return V(s, v.t)        # empty literal: the sorts are those of the place it is stored in
        if k == "none" and (v.s == NONE or (v.s == PY and v.t is None)):
            return VNONE
        raise Unsupported(f"cannot coerce {v} to {show(s)}")

    # lists ------------------------------------------------------------
    @staticmethod
    def elem_arr_name(elem_sort):
        if elem_sort == REAL:
            return "list.R"
        if elem_sort == STR:
            return "list.S"
        if is_intlike(elem_sort):
            return "list.I"
        raise Unsupported(f"list of {show(elem_sort)}")

    def list_len(self, st, lst):
        ln = heap_select(self.arr(st, "list.len"), lst.t, self.param_consts)
        st.assume(z3.Implies(z3.And(lst.t >= 1, lst.t <= st.heap.alloc), ln >= 0))
        return ln

    def list_elems(self, st, lst):
        return heap_select(self.arr(st, self.elem_arr_name(lst.s[1])), lst.t, self.param_consts)

    @staticmethod
    def note_index(st, idx_t):
        """remember ground index terms: universally quantified hypotheses are instantiated at them for every obligation"""
        if z3.is_int_value(idx_t):
            return
        if not any(idx_t.eq(x) for x in st.index_terms) and len(st.index_terms) < 8:
            st.index_terms = st.index_terms + [idx_t]

    def list_get(self, st, lst, idx_t):
        e = z3.simplify(z3.Select(self.list_elems(st, lst), idx_t))      # beta-reduces a lambda-defined element array at this index
        ln = z3.Select(self.arr(st, "list.len"), lst.t)
        return self.typing_facts(st, V(lst.s[1], e), guard=z3.And(idx_t >= 0, idx_t < ln, lst.t >= 1, lst.t <= st.heap.alloc))

    def new_object(self, st, cname, owner=GEN):
        if owner == GEN and self.contract is not None and self.contract.allocs_owner == "LOCAL":
            owner = LOCAL       # working storage of code that drives generation (e.g. the list of mass fractions): not touched by "...@GEN" effects
        oid = st.heap.alloc + 1
        st.heap.alloc = oid
        oid = z3.simplify(oid)
        tag = self.arr(st, "obj.tag")
        st.heap.arrs["obj.tag"] = z3.Store(tag, oid, z3.IntVal(R.CLASS_IDS.get(cname, 0)))
        ow = self.arr(st, "obj.owner")
        st.heap.arrs["obj.owner"] = z3.Store(ow, oid, z3.IntVal(owner))
        return oid

    def new_list(self, st, elem_sort, length_t, elems_arr=None, owner=GEN):
        oid = self.new_object(st, "list", owner)
        st.heap.arrs["list.len"] = z3.Store(self.arr(st, "list.len"), oid, length_t)
        if elem_sort is not None and elems_arr is not None:
            nm = self.elem_arr_name(elem_sort)
            st.heap.arrs[nm] = z3.Store(self.arr(st, nm), oid, elems_arr)
        return V(List(elem_sort if elem_sort is not None else ("unk",)), oid)

    def set_list(self, st, lst, length_t=None, elems_arr=None, node=None):
        self.note_write(st, "list", lst.t, node)
        if length_t is not None:
            st.heap.arrs["list.len"] = z3.Store(self.arr(st, "list.len"), lst.t, length_t)
        if elems_arr is not None:
            nm = self.elem_arr_name(lst.s[1])
            st.heap.arrs[nm] = z3.Store(self.arr(st, nm), lst.t, elems_arr)

    # dicts ------------------------------------------------------------ (keys: STR or Int-like; has / val arrays per key-value sort pair)
    @staticmethod
    def dict_names(s):
        if s[1] == ("unk",):
            raise Unsupported("dict of undeclared sort (declare it as a field / local sort)")
        kc = "S" if s[1] == STR else ("I" if is_intlike(s[1]) else None)
        vc = "S" if s[2] == STR else ("R" if s[2] == REAL else ("I" if is_intlike(s[2]) else None))
        if kc is None or vc is None:
            raise Unsupported(f"dict sort {show(s)}")
        return "dict.has" + kc, "dict." + kc + vc

    def new_dict(self, st, owner=GEN):
        oid = self.new_object(st, "dict", owner)
        st.heap.arrs["dict.len"] = z3.Store(self.arr(st, "dict.len"), oid, z3.IntVal(0))
        for kc in "SI":       # the key sort is declared where the empty literal is stored: no key of either sort is present
            st.heap.arrs["dict.has" + kc] = z3.Store(self.arr(st, "dict.has" + kc), oid, z3.K(_ZS[kc](), z3.BoolVal(False)))
        return V(("dict", ("unk",), ("unk",)), oid)

    def dict_key(self, d, key):
        kv = lift(key) if key.s == PY else key
        if (d.s[1] == STR) != (kv.s == STR) or (d.s[1] != STR and not is_intlike(kv.s)):
            raise Unsupported(f"dict key {key} for {show(d.s)}")
        return kv.t

    def dict_has(self, st, d, key):
        hn, _ = self.dict_names(d.s)
        return z3.Select(heap_select(self.arr(st, hn), d.t, self.param_consts), self.dict_key(d, key))

    def dict_len(self, st, d):
        ln = heap_select(self.arr(st, "dict.len"), d.t, self.param_consts)
        st.assume(z3.Implies(z3.And(d.t >= 1, d.t <= st.heap.alloc), ln >= 0))
        return ln

    def dict_val(self, st, d, key):
        _, vn = self.dict_names(d.s)
        kt = self.dict_key(d, key)
        e = z3.simplify(z3.Select(heap_select(self.arr(st, vn), d.t, self.param_consts), kt))
        return self.typing_facts(st, V(d.s[2], e), guard=z3.And(self.dict_has(st, d, key), d.t >= 1, d.t <= st.heap.alloc))

    def dict_set(self, st, d, key, val, node=None):
        hn, vn = self.dict_names(d.s)
        kt = self.dict_key(d, key)
        v = self.coerce(val, d.s[2])
        self.note_write(st, "dict", d.t, node)
        had = z3.Select(z3.Select(self.arr(st, hn), d.t), kt)
        ln = self.arr(st, "dict.len")
        st.heap.arrs["dict.len"] = z3.Store(ln, d.t, z3.Select(ln, d.t) + z3.If(had, 0, 1))
        ha = self.arr(st, hn)
        st.heap.arrs[hn] = z3.Store(ha, d.t, z3.Store(z3.Select(ha, d.t), kt, z3.BoolVal(True)))
        va = self.arr(st, vn)
        st.heap.arrs[vn] = z3.Store(va, d.t, z3.Store(z3.Select(va, d.t), kt, v.t))

    # ------------------------------------------------------------------ obligations
    def oblige(self, st, goal, kind, detail, node=None, text="", props=None):
        line = getattr(node, "lineno", None)
        if line is not None:
            line += self.line_offset
        name = f"{self.key}/{kind}[{detail}]"
        if isinstance(goal, bool):
            goal = z3.BoolVal(goal)
        hyps = list(st.pc)
        uses = getattr(self.contract, "uses", None) if self.contract is not None else None
        if uses and kind in ("post", "yield", "site", "inv-step", "variant") and detail in uses:
            from .solve import has_quant
            allowed = uses[detail]
            def ok_tag(t):
                return t is not None and any(t == a or t.startswith(a) for a in allowed)
            sel = []
            for h in hyps:
                t = TAGS.get(h.get_id())
                # conjunctions are split: their quantifier-free conjuncts are always kept
                stack = [h]
                while stack:
                    x = stack.pop()
                    if z3.is_and(x):
                        stack.extend(x.children())
                    elif t == "typing" and "typing" not in allowed and has_quant(x, lambdas_count=True):
                        continue        # a well-formedness fact about a heap read that could not be resolved (still mentions a lambda): not needed
                    elif not has_quant(x, lambdas_count=False) or ok_tag(t):
                        sel.append(x)
            hyps = sel
            text = text + "   [quantified hypotheses used: " + ", ".join(allowed) + "]"
        # instantiation hints: single-variable universally quantified hypotheses at the ground list indices of this path
        # (instances of true hypotheses: sound; saves the solver the search for the obvious instances)
        if st.index_terms and self.contract is not None and getattr(self.contract, 'index_hints', False):
            n_inst = 0
            for h in st.pc:
                for q in (h.children() if z3.is_and(h) else [h]):
                    if z3.is_quantifier(q) and q.is_forall() and q.num_vars() == 1 and q.var_sort(0) == z3.IntSort() and n_inst < 60:
                        for t in st.index_terms:
                            hyps.append(z3.substitute_vars(q.body(), t))
                            n_inst += 1
        ob = Obligation(name, hyps, goal, kind, self.key, line, props if props is not None else self.contract.props, text)
        self.obligations.append(ob)
        return ob

    # ------------------------------------------------------------------ truthiness & operators
    def truth(self, st, v):
        s = v.s
        if s == PY:
            return z3.BoolVal(bool(v.t))
        if s == BOOL:
            return v.t
        if s[0] == "senum":
            return v.t != s[2].index("") if "" in s[2] else z3.BoolVal(True)
        if s == INT or s[0] == "enum":
            return v.t != 0
        if s == REAL:
            return v.t != 0
        if s == STR:
            return z3.Length(v.t) > 0
        if s == NONE:
            return z3.BoolVal(False)
        if s[0] == "ref" or s[0] == "opq":
            return v.t != 0
        if s[0] == "list":
            return z3.And(v.t != 0, self.list_len(st, v) > 0)
        if s[0] == "opt":
            return z3.And(z3.Not(v.t[0]), self.truth(st, V(s[1], v.t[1])))
        if s == IDS:
            return z3.And(z3.Not(v.t[0]), v.t[1] != 0)
        if s[0] == "tuple":
            return z3.BoolVal(len(v.t) > 0)
        if s[0] == "func":
            return z3.BoolVal(True)
        raise Unsupported(f"truthiness of {v}")

    def equal(self, st, a, b):
        """python ==  as a z3 Bool"""
        if a.s == PY and b.s == PY:
            return z3.BoolVal(a.t == b.t)
        if a.s == PY or (b.s[0] == "senum" and a.s[0] != "senum"):
            a, b = b, a
        # b may be python constant
        if a.s[0] == "senum":
            if b.s == PY:
                return a.t == a.s[2].index(b.t) if b.t in a.s[2] else z3.BoolVal(False)
            if b.s[0] == "senum":
                if a.s[2] == b.s[2]:
                    return a.t == b.t
                return z3.Or([z3.And(a.t == i, b.t == b.s[2].index(x)) for i, x in enumerate(a.s[2]) if x in b.s[2]] or [z3.BoolVal(False)])
            if b.s == STR:
                return z3.Or([z3.And(a.t == i, b.t == z3.StringVal(x)) for i, x in enumerate(a.s[2])])
            return z3.BoolVal(False)
        if a.s[0] == "opt":
            if b.s == NONE or (b.s == PY and b.t is None):
                return a.t[0]
            if b.s[0] == "opt":
                return z3.Or(z3.And(a.t[0], b.t[0]),
                             z3.And(z3.Not(a.t[0]), z3.Not(b.t[0]), self.equal(st, V(a.s[1], a.t[1]), V(b.s[1], b.t[1]))))
            return z3.And(z3.Not(a.t[0]), self.equal(st, V(a.s[1], a.t[1]), b))
        if b.s[0] == "opt":
            return self.equal(st, b, a)
        if a.s == IDS:
            if b.s == IDS:
                return z3.Or(z3.And(a.t[0], b.t[0]), z3.And(z3.Not(a.t[0]), z3.Not(b.t[0]), a.t[1] == b.t[1]))
            if b.s == PY and isinstance(b.t, str):
                return a.t[0] if b.t == "" else z3.BoolVal(False)
            if b.s == STR:
                return z3.And(a.t[0], z3.Length(b.t) == 0)
            bb = lift(b)
            if bb.s == INT:
                return z3.And(z3.Not(a.t[0]), a.t[1] == bb.t)
            return z3.BoolVal(False)
        if b.s == IDS:
            return self.equal(st, b, a)
        if a.s == NONE:
            if b.s == NONE or (b.s == PY and b.t is None):
                return z3.BoolVal(True)
            if b.s[0] in ("ref", "list", "opq"):
                return b.t == 0
            return z3.BoolVal(False)
        if b.s == NONE or (b.s == PY and b.t is None):
            if a.s[0] in ("ref", "list", "opq"):
                return a.t == 0
            return z3.BoolVal(False)
        if is_num(a) and is_num(b):
            la, lb = lift(a), lift(b)
            if la.s == INT and lb.s == INT:
                return la.t == lb.t
            if la.s == BOOL and lb.s == BOOL:
                return la.t == lb.t
            return to_real(la) == to_real(lb)
        la, lb = lift(a), lift(b) if b.s == PY else b
        if la.s == STR and lb.s == STR:
            return la.t == lb.t
        if la.s[0] in ("ref", "opq", "enum") and lb.s[0] == la.s[0]:
            return la.t == lb.t
        if (la.s[0] == "enum" and lb.s == INT) or (lb.s[0] == "enum" and la.s == INT):
            return la.t == lb.t
        if la.s[0] == "list" and lb.s[0] == "list":
            raise Unsupported("list == list")
        if la.s[0] == "tuple" and lb.s[0] == "tuple":
            if len(la.t) != len(lb.t):
                return z3.BoolVal(False)
            return z3.And([self.equal(st, x, y) for x, y in zip(la.t, lb.t)])
        # different kinds are unequal in python
        kinds = {la.s[0], lb.s[0]}
        if kinds <= {"str", "int", "real", "bool", "ref", "list", "enum", "opq", "tuple"} and la.s[0] != lb.s[0]:
            return z3.BoolVal(False)
        raise Unsupported(f"== between {a} and {b}")

    def identical(self, st, a, b):
        if (b.s == NONE or (b.s == PY and b.t is None)) or (a.s == NONE or (a.s == PY and a.t is None)):
            return self.equal(st, a, b)
        if a.s[0] in ("ref", "list", "opq") and b.s[0] == a.s[0]:
            return a.t == b.t
        if a.s == BOOL or b.s == BOOL or (a.s == PY and b.s == PY):
            return self.equal(st, a, b)
        raise Unsupported(f"'is' between {a} and {b}")

    def arith(self, st, op, a, b, node, k, ctx):
        """numeric / string / list binary operator; calls k(st, value)"""
        if isinstance(op, ast.Add) and (lift(a).s == STR or lift(b).s == STR):
            la, lb = lift(a), lift(b)
            if la.s == STR and lb.s == STR:
                return k(st, V(STR, z3.Concat(la.t, lb.t)))
            return self.throw(st, "TypeError", node, ctx)
        if isinstance(op, ast.Add) and a.s[0] == "list" and b.s[0] == "list":
            return self.ext_call("list.__add__", st, node, [a, b], {}, k, ctx)
        if isinstance(op, ast.Mult) and (lift(a).s == STR or lift(b).s == STR):
            raise Unsupported("str * n")
        if a.s[0] == "opt" or b.s[0] == "opt":
            # None in arithmetic is a TypeError; otherwise use the inner value
            st2 = st.fork()
            conds = []
            if a.s[0] == "opt":
                conds.append(a.t[0])
            if b.s[0] == "opt":
                conds.append(b.t[0])
            bad = z3.Or(conds)
            st2.assume(bad)
            self.throw(st2, "TypeError", node, ctx)
            st.assume(z3.Not(bad))
            a2 = V(a.s[1], a.t[1]) if a.s[0] == "opt" else a
            b2 = V(b.s[1], b.t[1]) if b.s[0] == "opt" else b
            return self.arith(st, op, a2, b2, node, k, ctx)
        if a.s[0] == "list" and a.s[1] in (REAL, INT) and (is_num(b) or (b.s[0] == "list")):
            return self.ext_call("nparray.binop", st, node, [a, b, py(type(op).__name__)], {}, k, ctx)
        if b.s[0] == "list" and b.s[1] in (REAL, INT) and is_num(a):
            return self.ext_call("nparray.rbinop", st, node, [a, b, py(type(op).__name__)], {}, k, ctx)
        if not (is_num(a) and is_num(b)):
            if a.s == NONE or b.s == NONE:
                return self.throw(st, "TypeError", node, ctx)
            raise Unsupported(f"operator {type(op).__name__} on {a}, {b}")
        if a.s == PY and b.s == PY:
            import operator as o
            f = {ast.Add: o.add, ast.Sub: o.sub, ast.Mult: o.mul, ast.Div: o.truediv, ast.FloorDiv: o.floordiv,
                 ast.Mod: o.mod, ast.Pow: o.pow}[type(op)]
            try:
                return k(st, py(f(a.t, b.t)))
            except ZeroDivisionError:
                return self.throw(st, "ZeroDivisionError", node, ctx)
        la, lb = lift(a), lift(b)
        both_int = la.s in (INT, BOOL) and lb.s in (INT, BOOL)
        if both_int:
            x = la.t if la.s == INT else z3.If(la.t, 1, 0)
            y = lb.t if lb.s == INT else z3.If(lb.t, 1, 0)
        else:
            x, y = to_real(la), to_real(lb)
        if isinstance(op, ast.Add):
            return k(st, V(INT if both_int else REAL, x + y))
        if isinstance(op, ast.Sub):
            return k(st, V(INT if both_int else REAL, x - y))
        if isinstance(op, ast.Mult):
            return k(st, V(INT if both_int else REAL, x * y))
        if isinstance(op, ast.Div):
            xr, yr = to_real(la), to_real(lb)
            npdiv = getattr(node, "_numpy_div", False)
            if not npdiv:
                st2 = st.fork()
                st2.assume(yr == 0)
                self.throw(st2, "ZeroDivisionError", node, ctx)
                st.assume(yr != 0)
            return k(st, V(REAL, xr / yr))
        if isinstance(op, (ast.FloorDiv, ast.Mod)) and both_int:
            st2 = st.fork()
            st2.assume(y == 0)
            self.throw(st2, "ZeroDivisionError", node, ctx)
            st.assume(y != 0)
            # python floor semantics equal z3 div/mod for positive divisors only
            self.assumption_log.add("integer // and % are used with positive divisors only (z3 div/mod)")
            st.assume(y > 0)
            return k(st, V(INT, x / y if isinstance(op, ast.FloorDiv) else x % y))
        if isinstance(op, ast.Pow):
            return k(st, power(self, la, lb))
        raise Unsupported(f"operator {type(op).__name__}")

    def compare(self, st, op, a, b, node, k, ctx):
        if a.s[0] == "list" and len(a.s) > 3 and is_num(b) and not isinstance(op, (ast.Is, ast.IsNot, ast.In, ast.NotIn)):
            return self.ext_call("nparray.compare", st, node, [a, b, py(type(op).__name__)], {}, k, ctx)
        if isinstance(op, ast.Eq):
            return k(st, V(BOOL, self.equal(st, a, b)))
        if isinstance(op, ast.NotEq):
            return k(st, V(BOOL, z3.Not(self.equal(st, a, b))))
        if isinstance(op, ast.Is):
            return k(st, V(BOOL, self.identical(st, a, b)))
        if isinstance(op, ast.IsNot):
            return k(st, V(BOOL, z3.Not(self.identical(st, a, b))))
        if isinstance(op, (ast.In, ast.NotIn)):
            neg = isinstance(op, ast.NotIn)
            r = self.contains(st, a, b, node)
            return k(st, V(BOOL, z3.Not(r) if neg else r))
        # ordering
        if a.s[0] == "opt" or b.s[0] == "opt":
            conds = [x.t[0] for x in (a, b) if x.s[0] == "opt"]
            st2 = st.fork()
            st2.assume(z3.Or(conds))
            self.throw(st2, "TypeError", node, ctx)
            st.assume(z3.Not(z3.Or(conds)))
            a = V(a.s[1], a.t[1]) if a.s[0] == "opt" else a
            b = V(b.s[1], b.t[1]) if b.s[0] == "opt" else b
        if a.s == NONE or b.s == NONE:
            return self.throw(st, "TypeError", node, ctx)
        if a.s[0] == "list" and a.s[1] in (REAL, INT) and is_num(b):
            return self.ext_call("nparray.compare", st, node, [a, b, py(type(op).__name__)], {}, k, ctx)
        if not (is_num(a) and is_num(b)):
            raise Unsupported(f"ordering of {a} and {b}")
        la, lb = lift(a), lift(b)
        if la.s == INT and lb.s == INT:
            x, y = la.t, lb.t
        else:
            x, y = to_real(la), to_real(lb)
        r = {ast.Lt: x < y, ast.LtE: x <= y, ast.Gt: x > y, ast.GtE: x >= y}[type(op)]
        return k(st, V(BOOL, r))

    def contains(self, st, a, b, node):
        """a in b"""
        la = lift(a) if a.s == PY and not isinstance(a.t, tuple) else a
        if b.s == PY and isinstance(b.t, (tuple, list)):
            return z3.Or([self.equal(st, a, py(x)) for x in b.t]) if b.t else z3.BoolVal(False)
        if b.s[0] == "tuple":
            return z3.Or([self.equal(st, a, x) for x in b.t]) if b.t else z3.BoolVal(False)
        lb = lift(b) if b.s == PY else b
        if lb.s == STR and la.s == STR:
            return z3.Contains(lb.t, la.t)
        if lb.s[0] == "dict":
            if (lb.s[1] == STR) != (la.s == STR):
                return z3.BoolVal(False)
            return self.dict_has(st, lb, a)
        if lb.s[0] == "list":
            ln = self.list_len(st, lb)
            lnv = z3.simplify(ln)
            if z3.is_int_value(lnv):
                n = lnv.as_long()
                return z3.Or([self.equal(st, a, self.list_get(st, lb, z3.IntVal(i))) for i in range(n)]) if n else z3.BoolVal(False)
            i = z3.Int(f"in!{next(_fresh)}")
            el = self.list_get(st, lb, i)
            return z3.Exists([i], z3.And(i >= 0, i < ln, self.equal(st, a, el)))
        raise Unsupported(f"'in' with {a} in {b}")

    # ------------------------------------------------------------------ control: raising
    def throw(self, st, exc, node, ctx, value=None):
        if ctx is None or ctx.k_raise is None:
            raise Unsupported("raise in pure context")
        return ctx.k_raise(st, exc, node)

    def feasible(self, st):
        if not self.prune:
            return True
        s = z3.Solver()
        s.set("timeout", 1500)
        s.add(*st.pc)
        r = s.check()
        return r != z3.unsat

    # ------------------------------------------------------------------ expression evaluation (CPS)
    def ev(self, node, st, k, ctx):
        m = getattr(self, "ev_" + type(node).__name__, None)
        if m is None:
            raise Unsupported(f"expression {type(node).__name__} at line {getattr(node, 'lineno', '?')}")
        return m(node, st, k, ctx)

    def ev_list(self, nodes, st, k, ctx, acc=None):
        acc = acc or []
        if not nodes:
            return k(st, acc)
        return self.ev(nodes[0], st, lambda s1, v: self.ev_list(nodes[1:], s1, k, ctx, acc + [v]), ctx)

    def ev_Constant(self, node, st, k, ctx):
        return k(st, py(node.value))

    def ev_Name(self, node, st, k, ctx):
        n = node.id
        if n in st.env:
            return k(st, st.env[n])
        v = self.lookup_global(st, n)
        if v is not None:
            return k(st, v)
        raise Unsupported(f"unbound name {n}")

    def lookup_global(self, st, n):
        if n in ("True", "False", "None"):
            return py({"True": True, "False": False, "None": None}[n])
        mod = self.key.split(".")[0]
        g = R.MODULE_GLOBALS.get(mod, {})
        if n in g:
            gname = f"global.{mod}.{n}"
            self.reads.add(gname)
            return self.ghost_get(st, gname, g[n])
        if n in R.NAME_CONSTS:
            return R.NAME_CONSTS[n]
        return V(("name",), n)   # module-level name (function, class, module alias, builtin)

    def ghost_get(self, st, gname, sort):
        if gname not in st.ghost:
            v = initial_value("G0!" + gname, sort)
            st.ghost[gname] = v
            if st.old is not None and gname not in st.old.ghost:
                st.old.ghost[gname] = v
            if st.loop_entry is not None and gname not in st.loop_entry.ghost:
                st.loop_entry.ghost[gname] = v
            if sort[0] in ("ref", "list", "opq"):
                self.typing_facts(st, v)
        return st.ghost[gname]

    def ev_JoinedStr(self, node, st, k, ctx):
        parts = []

        def go(i, s1, acc):
            if i == len(node.values):
                if not acc:
                    return k(s1, py(""))
                t = acc[0]
                for x in acc[1:]:
                    t = z3.Concat(t, x)
                return k(s1, V(STR, t))
            v = node.values[i]
            if isinstance(v, ast.Constant):
                return go(i + 1, s1, acc + [z3.StringVal(v.value)])
            assert isinstance(v, ast.FormattedValue)
            if v.format_spec is not None or v.conversion != -1:
                raise Unsupported("format spec")
            return self.ev(v.value, s1, lambda s2, val: self.to_str(s2, val, v, lambda s3, sv: go(i + 1, s3, acc + [lift(sv).t]), ctx), ctx)
        return go(0, st, parts)

    def to_str(self, st, v, node, k, ctx):
        """str(v)"""
        if v.s == PY:
            return k(st, py(str(v.t)))
        if v.s == STR:
            return k(st, v)
        if v.s == INT:
            return k(st, V(STR, self.int_text(v.t)))
        if v.s == REAL:
            return k(st, V(STR, self.real_text(v.t)))
        if v.s == IDS:
            return k(st, V(STR, z3.If(v.t[0], z3.StringVal(""), self.int_text(v.t[1]))))
        if v.s[0] == "senum":
            return k(st, V(STR, self.senum_text(v)))
        if v.s[0] == "ref":
            return self.call_method(st, v, "__str__", [], {}, node, k, ctx)
        if v.s[0] == "tuple" and len(v.t) >= 2:
            parts = []
            for x in v.t:
                self.to_str(st, x, node, lambda s2, sv: parts.append(lift(sv).t) or None, ctx)
            t = z3.StringVal("(")
            for i, ptxt in enumerate(parts):
                t = z3.Concat(t, ptxt) if i == 0 else z3.Concat(t, z3.StringVal(", "), ptxt)
            return k(st, V(STR, z3.Concat(t, z3.StringVal(")"))))
        if v.s[0] == "opt":
            inner = []
            self.to_str(st, V(v.s[1], v.t[1]), node, lambda s2, sv: inner.append(sv) or None, ctx)
            return k(st, V(STR, z3.If(v.t[0], z3.StringVal("None"), lift(inner[0]).t)))
        raise Unsupported(f"str() of {v}")

    _int_text = None
    _real_text = None

    @staticmethod
    def senum_text(v):
        vals = v.s[2]
        t = z3.StringVal(vals[-1])
        for i in range(len(vals) - 2, -1, -1):
            t = z3.If(v.t == i, z3.StringVal(vals[i]), t)
        return t

    @staticmethod
    def senum_code(sort, str_term):
        """code of a symbolic string in a StrEnum, -1 if it is none of the values"""
        t = z3.IntVal(-1)
        for i in range(len(sort[2]) - 1, -1, -1):
            t = z3.If(str_term == z3.StringVal(sort[2][i]), z3.IntVal(i), t)
        return t

    def int_text(self, t):
        """abstract decimal text of an int: uninterpreted, with axioms added per use"""
        if Engine._int_text is None:
            Engine._int_text = z3.Function("int_text", z3.IntSort(), z3.StringSort())
        self.assumption_log.add("str(int) is an abstract non-empty text without '|[]{}, ;%' (axiom on builtins)")
        return Engine._int_text(t)

    def real_text(self, t):
        if Engine._real_text is None:
            Engine._real_text = z3.Function("real_text", z3.RealSort(), z3.StringSort())
        self.assumption_log.add("repr(float) is an abstract non-empty text without '|[]{}, ;%' (axiom on builtins)")
        return Engine._real_text(t)

    _pf = {}

    def parse_float_fn(self):
        if "f" not in Engine._pf:
            Engine._pf["f"] = z3.Function("parse_float", z3.StringSort(), z3.RealSort())
        self.assumption_log.add("float(text) is an uninterpreted function of the text; float(text) raises ValueError iff not parse_float_ok(text)")
        return Engine._pf["f"]

    def parse_float_ok(self):
        if "ok" not in Engine._pf:
            Engine._pf["ok"] = z3.Function("parse_float_ok", z3.StringSort(), z3.BoolSort())
        return Engine._pf["ok"]

    def parse_int_fn(self):
        if "i" not in Engine._pf:
            Engine._pf["i"] = z3.Function("parse_int", z3.StringSort(), z3.IntSort())
        self.assumption_log.add("int(text) is an uninterpreted function of the text and may raise ValueError")
        return Engine._pf["i"]

    def ev_BoolOp(self, node, st, k, ctx):
        is_and = isinstance(node.op, ast.And)

        def go(i, s1):
            return self.ev(node.values[i], s1, lambda s2, v: step(i, s2, v), ctx)

        def step(i, s2, v):
            if i == len(node.values) - 1:
                return k(s2, v)
            t = self.truth(s2, v)
            t = z3.simplify(t)
            if z3.is_true(t):
                return go(i + 1, s2) if is_and else k(s2, v)
            if z3.is_false(t):
                return k(s2, v) if is_and else go(i + 1, s2)
            # short-circuit: fork
            sa, sb = s2.fork(), s2.fork()
            sa.assume(t)
            sb.assume(z3.Not(t))
            if is_and:
                go(i + 1, sa)
                k(sb, v if v.s == BOOL else v)
            else:
                k(sa, v)
                go(i + 1, sb)
        return go(0, st)

    def ev_UnaryOp(self, node, st, k, ctx):
        def f(s1, v):
            if isinstance(node.op, ast.Not):
                return k(s1, V(BOOL, z3.Not(self.truth(s1, v))))
            if isinstance(node.op, ast.USub):
                if v.s == PY:
                    return k(s1, py(-v.t))
                lv = lift(v)
                return k(s1, V(lv.s, -lv.t))
            if isinstance(node.op, ast.UAdd):
                return k(s1, v)
            raise Unsupported("unary op")
        return self.ev(node.operand, st, f, ctx)

    def ev_BinOp(self, node, st, k, ctx):
        return self.ev(node.left, st, lambda s1, a: self.ev(node.right, s1, lambda s2, b: self.arith(s2, node.op, a, b, node, k, ctx), ctx), ctx)

    def ev_Compare(self, node, st, k, ctx):
        def go(i, s1, left, acc):
            if i == len(node.ops):
                return k(s1, V(BOOL, z3.And(acc) if len(acc) > 1 else acc[0]))

            def after_cmp(s3, r, right):
                if len(node.ops) == 1 and r.s != BOOL:
                    return k(s3, r)          # element-wise comparison of an array
                return go(i + 1, s3, right, acc + [r.t if r.s == BOOL else self.truth(s3, r)])
            return self.ev(node.comparators[i], s1,
                           lambda s2, right: self.compare(s2, node.ops[i], left, right, node,
                                                          lambda s3, r: after_cmp(s3, r, right), ctx), ctx)
        return self.ev(node.left, st, lambda s1, left: go(0, s1, left, []), ctx)

    def ev_IfExp(self, node, st, k, ctx):
        def f(s1, c):
            t = z3.simplify(self.truth(s1, c))
            if z3.is_true(t):
                return self.ev(node.body, s1, k, ctx)
            if z3.is_false(t):
                return self.ev(node.orelse, s1, k, ctx)
            sa, sb = s1.fork(), s1.fork()
            sa.assume(t)
            sb.assume(z3.Not(t))
            self.ev(node.body, sa, k, ctx)
            self.ev(node.orelse, sb, k, ctx)
        return self.ev(node.test, st, f, ctx)

    def ev_Tuple(self, node, st, k, ctx):
        return self.ev_list(node.elts, st, lambda s1, vs: k(s1, V(("tuple", tuple(v.s for v in vs)), tuple(vs))), ctx)

    def ev_Dict(self, node, st, k, ctx):
        if node.keys:
            raise Unsupported("non-empty dict literal")
        return k(st, self.new_dict(st))

    def ev_List(self, node, st, k, ctx):
        def f(s1, vs):
            if not vs:
                return k(s1, self.new_list(s1, None, z3.IntVal(0)))
            vs2 = [lift(v) if v.s == PY else v for v in vs]
            es = vs2[0].s
            if es == INT and any(v.s == REAL for v in vs2):
                es = REAL
            nm = self.elem_arr_name(es)
            a = z3.K(z3.IntSort(), z3.RealVal(0) if es == REAL else (z3.StringVal("") if es == STR else z3.IntVal(0)))
            for i, v in enumerate(vs2):
                a = z3.Store(a, i, self.coerce(v, es).t)
            return k(s1, self.new_list(s1, es, z3.IntVal(len(vs2)), a))
        return self.ev_list(node.elts, st, f, ctx)

    def ev_Attribute(self, node, st, k, ctx):
        return self.ev(node.value, st, lambda s1, o: self.load_attr(s1, o, node.attr, node, k, ctx), ctx)

    def load_attr(self, st, o, attr, node, k, ctx):
        if o.s == ("name",):
            nm = f"{o.t}.{attr}"
            if nm in R.NAME_CONSTS:
                return k(st, R.NAME_CONSTS[nm])
            return k(st, V(("name",), nm))
        if o.s[0] == "ref":
            return self.dispatch(st, o, node, ctx, lambda s1, cname: self.load_attr_cls(s1, o, cname, attr, node, k, ctx))
        if o.s[0] in ("list", "str", "opq") or o.s == PY:
            return k(st, V(("bound",), (o, attr)))
        if o.s == NONE:
            return self.throw(st, "AttributeError", node, ctx)
        if o.s[0] == "opt":
            raise Unsupported("attribute of optional scalar")
        raise Unsupported(f"attribute {attr} of {o}")

    def dispatch(self, st, o, node, ctx, body):
        """run body(st, classname) for each concrete class the reference may have; None -> AttributeError"""
        if o.s[2]:
            z = z3.simplify(o.t == 0)
            if not z3.is_false(z):
                sn = st.fork()
                sn.assume(o.t == 0)
                if self.feasible(sn):
                    self.throw(sn, "AttributeError", node, ctx)
                st.assume(o.t != 0)
        cl = classes_of(o.s)
        concrete = []
        for c in cl:
            for sc in R.subclasses(c):
                if sc not in concrete and not R.CLASSES[sc].get("abstract"):
                    concrete.append(sc)
        if len(concrete) == 1:
            return body(st, concrete[0])
        tag = z3.Select(self.arr(st, "obj.tag"), o.t)
        for c in concrete:
            s1 = st.fork()
            s1.assume(tag == R.CLASS_IDS[c])
            if self.feasible(s1):
                body(s1, c)

    def load_attr_cls(self, st, o, cname, attr, node, k, ctx):
        fields = R.class_fields(cname)
        if attr in fields:
            return k(st, self.load_field(st, o.t, cname, attr))
        key = self.method_key(cname, attr)
        if key and key in R.CONTRACTS and R.CONTRACTS[key].is_property:
            return self.call_contract(st, key, [V(Ref(cname), o.t)], {}, node, k, ctx)
        if key or f"{cname}.{attr}" in R.EXTERNALS:
            return k(st, V(("bound",), (V(Ref(cname), o.t), attr)))
        if R.CLASSES[cname].get("closed"):
            return self.throw(st, "AttributeError", node, ctx)
        raise Unsupported(f"attribute {cname}.{attr} is neither a declared field nor under contract")

    def method_key(self, cname, meth):
        """contract key of a method, searching base classes"""
        c = R.CLASSES[cname]
        key = f"{c['module']}.{cname}.{meth}"
        if key in R.CONTRACTS or any(k.startswith(key + "#") for k in R.CONTRACTS):
            return key
        for b in c["bases"]:
            if b in R.CLASSES:
                r = self.method_key(b, meth)
                if r:
                    return r
        return None

    def ev_Subscript(self, node, st, k, ctx):
        if isinstance(node.slice, ast.Slice):
            return self.ev(node.value, st, lambda s1, o: self.ev_slice(s1, o, node, k, ctx), ctx)
        return self.ev(node.value, st, lambda s1, o: self.ev(node.slice, s1, lambda s2, i: self.index(s2, o, i, node, k, ctx), ctx), ctx)

    def norm_index(self, st, i_t, ln, node, ctx, exc="IndexError"):
        """python index normalisation with IndexError fork; returns the non-negative index term"""
        ok = z3.And(i_t >= -ln, i_t < ln)
        okS = z3.simplify(ok)
        if not z3.is_true(okS):
            s2 = st.fork()
            s2.assume(z3.Not(ok))
            if z3.is_false(okS) or self.feasible(s2):
                self.throw(s2, exc, node, ctx)
            st.assume(ok)
        return z3.simplify(z3.If(i_t < 0, i_t + ln, i_t))

    def index(self, st, o, i, node, k, ctx):
        if o.s == PY and i.s == PY:
            try:
                return k(st, py(o.t[i.t]))
            except IndexError:
                return self.throw(st, "IndexError", node, ctx)
        if o.s[0] == "tuple":
            if i.s == PY:
                return k(st, o.t[i.t])
            raise Unsupported("symbolic index into tuple")
        lo = lift(o) if o.s == PY else o
        li = lift(i) if i.s == PY else i
        if lo.s[0] == "list":
            if li.s not in (INT,) and not is_intlike(li.s):
                raise Unsupported(f"list index {i}")
            ln = self.list_len(st, lo)
            idx = self.norm_index(st, li.t, ln, node, ctx)
            if st.infeasible:
                return
            self.note_index(st, idx)
            return k(st, self.list_get(st, lo, idx))
        if lo.s == STR:
            ln = z3.Length(lo.t)
            idx = self.norm_index(st, li.t, ln, node, ctx)
            return k(st, V(STR, z3.SubString(lo.t, idx, 1)))
        if lo.s[0] == "dict" and (lo.s[1] == STR) != ((lift(i) if i.s == PY else i).s == STR):
            return self.throw(st, "KeyError", node, ctx)        # a text key in an int-keyed dict (or the reverse) is simply absent
        if lo.s[0] == "dict":
            has = self.dict_has(st, lo, i)
            s_no = st.fork()
            s_no.assume(z3.Not(has))
            if self.feasible(s_no):
                self.throw(s_no, "KeyError", node, ctx)
            st.assume(has)
            if st.infeasible or not self.feasible(st):
                return
            return k(st, self.dict_val(st, lo, i))
        raise Unsupported(f"subscript of {o}")

    def ev_slice(self, st, o, node, k, ctx):
        sl = node.slice
        if sl.step is not None:
            raise Unsupported("slice step")

        def with_bounds(s1, lo_v, hi_v):
            ob = lift(o) if o.s == PY else o
            if ob.s == STR:
                ln = z3.Length(ob.t)
            elif ob.s[0] == "list":
                ln = self.list_len(s1, ob)
            else:
                raise Unsupported(f"slice of {o}")

            def clamp(v, default):
                if v is None:
                    return default
                t = lift(v).t
                t = z3.If(t < 0, t + ln, t)
                return z3.If(t < 0, z3.IntVal(0), z3.If(t > ln, ln, t))
            a = clamp(lo_v, z3.IntVal(0))
            b = clamp(hi_v, ln)
            n = z3.If(b > a, b - a, z3.IntVal(0))
            if ob.s == STR:
                return k(s1, V(STR, z3.SubString(ob.t, a, n)))
            # list slice: fresh list with shifted elements
            src = self.list_elems(s1, ob)
            j = z3.Int(f"j!{next(_fresh)}")
            new = z3.Lambda([j], z3.Select(src, j + a))
            return k(s1, self.new_list(s1, ob.s[1], z3.simplify(n), new))

        def ev_opt(n, s1, kk):
            if n is None:
                return kk(s1, None)
            return self.ev(n, s1, kk, ctx)
        return ev_opt(sl.lower, st, lambda s1, lo_v: ev_opt(sl.upper, s1, lambda s2, hi_v: with_bounds(s2, lo_v, hi_v)))

    def ev_Call(self, node, st, k, ctx):
        from . import calls
        return calls.ev_call(self, node, st, k, ctx)

    def ev_Lambda(self, node, st, k, ctx):
        return k(st, V(("lambda",), (node, dict(st.env))))

    def ev_ListComp(self, node, st, k, ctx):
        from . import calls
        return calls.ev_listcomp(self, node, st, k, ctx)

    # ------------------------------------------------------------------ calls by contract
    def ext_call(self, name, st, node, args, kwargs, k, ctx):
        h = R.EXTERNALS.get(name)
        if h is None:
            raise Unsupported(f"external {name} not declared")
        self.calls_seen.append(name)
        return h(self, st, node, args, kwargs, k, ctx)

    def uniform_contract(self, recv, meth):
        """all concrete classes the receiver may have answer `meth` by contracts with the same text: one call suffices"""
        concrete = []
        for c in classes_of(recv.s):
            for sc in R.subclasses(c):
                if sc not in concrete and not R.CLASSES[sc].get("abstract"):
                    concrete.append(sc)
        keys = [self.method_key(c, meth) for c in concrete]
        if len(concrete) < 2 or any(k_ is None or k_ not in R.CONTRACTS for k_ in keys):
            return None
        def sig(c):
            return (tuple(c.requires), tuple(c.ensures), tuple(sorted(c.raises.items())), tuple(sorted(c.raises_may.items())),
                    tuple(c.modifies), c.returns, c.allocates, tuple(sorted((n, str(v)) for n, v in c.params.items() if n != "self")))
        sigs = {sig(R.CONTRACTS[k_]) for k_ in keys}
        return keys[0] if len(sigs) == 1 else None

    def call_method(self, st, recv, meth, args, kwargs, node, k, ctx):
        ukey = self.uniform_contract(recv, meth) if recv.s[0] == "ref" else None
        if ukey is not None:
            if recv.s[2]:
                sn = st.fork()
                sn.assume(recv.t == 0)
                if self.feasible(sn):
                    self.throw(sn, "AttributeError", node, ctx)
                st.assume(recv.t != 0)
            self.typing_facts(st, V((recv.s[0], recv.s[1], False), recv.t))
            return self.call_contract(st, ukey, [V(R.CONTRACTS[ukey].params["self"], recv.t)] + args, kwargs, node, k, ctx)

        def body(s1, cname):
            key = self.method_key(cname, meth)
            if key is None and f"{cname}.{meth}" in R.EXTERNALS:
                return self.ext_call(f"{cname}.{meth}", s1, node, [V(Ref(cname), recv.t)] + args, kwargs, k, ctx)
            if key is None:
                if meth == "__str__":
                    key = self.method_key(cname, "generate_string")
                    if key:
                        return self.call_contract(s1, key, [V(Ref(cname), recv.t), py(True)], {}, node, k, ctx)
                raise Unsupported(f"method {cname}.{meth} has no contract")
            return self.call_contract(s1, key, [V(Ref(cname), recv.t)] + args, kwargs, node, k, ctx)
        return self.dispatch(st, recv, node, ctx, body)

    def bind_args(self, c, args, kwargs):
        names = list(c.params)
        bound = {}
        for n, a in zip(names, args):
            bound[n] = a
        if len(args) > len(names):
            raise Unsupported(f"too many arguments for {c.key}")
        for n, a in kwargs.items():
            if n not in c.params:
                raise Unsupported(f"unknown keyword {n} for {c.key}")
            bound[n] = a
        for n in names:
            if n not in bound:
                if n in c.defaults:
                    d_ = c.defaults[n]
                    # a python default value (None, 0, ...) is a value like any other argument
                    bound[n] = d_ if isinstance(d_, V) else (self.coerce(VNONE if d_ is None else py(d_), c.params[n]) if c.params.get(n) is not None else py(d_))
                else:
                    raise Unsupported(f"missing argument {n} for {c.key}")
        out = {}
        for n in names:
            v = bound[n]
            if isinstance(v, V):
                out[n] = self.coerce(v, c.params[n]) if c.params[n] is not None else v
            else:
                out[n] = v
        return out

    def spec_env(self, c, st, bound, captured_from=None):
        env = dict(bound)
        for n, s in c.captured.items():
            if captured_from is not None and n in captured_from:
                env[n] = self.coerce(captured_from[n], s) if isinstance(captured_from[n], V) and s is not None and captured_from[n].s != ("func",) else captured_from[n]
        return env

    def havoc_arrays(self, st, names, keep_pre=True):
        """replace heap arrays by fresh ones (effects of a callee / a loop)"""
        for nm in names:
            if nm.startswith("ghost.") or nm.startswith("global."):
                sort = R.GHOSTS.get(nm[6:]) if nm.startswith("ghost.") else self.global_sort(nm)
                self.ghost_get(st, nm, sort)
                st.ghost[nm] = fresh_value("hv!" + nm, sort) if sort[0] != "map" else V(sort, fresh("hv!" + nm, z3sort_of_ghost(sort)))
                continue
            if nm in GROUPS:
                for n2 in GROUPS[nm]:
                    self.arr(st, n2)
                    st.heap.arrs[n2] = fresh("hv!" + n2, arr_sort_for(n2))
                continue
            cname, fname = nm.split(".", 1)
            fs = R.class_fields(cname)[fname]
            self.arr(st, nm)
            st.heap.arrs[nm] = fresh("hv!" + nm, arr_sort_for(nm))
            if fs[0] in ("opt", "ids"):
                self.arr(st, nm + "#n")
                st.heap.arrs[nm + "#n"] = fresh("hv!" + nm + "#n", arr_sort_for(nm + "#n"))

    def global_sort(self, gname):
        _, mod, n = gname.split(".", 2)
        return R.MODULE_GLOBALS[mod][n]

    def expand_modifies(self, mods):
        out = []
        for m in mods:
            if "@" in m:        # object-granular: "Class.field@expr" / "list@expr" -- only that object's cell may change
                base, expr = m.split("@", 1)
                out.append(self.expand_modifies([base])[0] + "@" + expr)
                continue
            if m in GROUPS or m.startswith("ghost.") or m.startswith("global."):
                out.append(m)
                continue
            cname, fname = m.split(".", 1)
            owner = R.field_owner(cname, fname)
            if owner is None:
                raise Unsupported(f"modifies names unknown field {m}")
            out.append(f"{owner}.{fname}")
        return out

    def call_contract(self, st, key, args, kwargs, node, k, ctx, captured_from=None):
        from .specs import SpecEval
        if key not in R.CONTRACTS:
            # `function#variant` contracts: the variant whose parameter sorts accept the arguments
            chosen = None
            for k2 in sorted(R.CONTRACTS):
                if k2.startswith(key + "#"):
                    try:
                        self.bind_args(R.CONTRACTS[k2], args, kwargs)
                        chosen = k2
                        break
                    except Unsupported:
                        continue
            if chosen is None:
                raise Unsupported(f"no contract variant of {key} accepts the arguments")
            key = chosen
        c = R.CONTRACTS[key]
        self.calls_seen.append(key)
        bound = self.bind_args(c, args, kwargs)
        env = self.spec_env(c, st, bound, captured_from if captured_from is not None else st.env)
        pre = st.fork()
        pre.env = env
        se = SpecEval(self, pre, pre_state=pre)
        # requires: obligations of the caller
        for i, r in enumerate(c.requires):
            g = se.boolean(r)
            self.oblige(st, g, "pre", f"{key.split('.', 1)[1]}:{c.labels.get(r, i)}@{self.site(node)}", node,
                        text=f"precondition of {key}: {r}")
            st.assume(g)
        # exceptional exits
        raise_conds = []
        for exc, cond in list(c.raises.items()) + list(c.raises_may.items()):
            cnd = se.boolean(cond)
            raise_conds.append((exc, cnd, exc in c.raises and cond is c.raises[exc]))
        mods = self.expand_modifies(c.modifies)
        # object-granular modifies: the objects are named by expressions over the callee's parameters, evaluated before the call
        gran = {}
        for m in mods:
            if "@" in m:
                base, expr = m.split("@", 1)
                gran.setdefault(base, []).append(ALL_GEN if expr.strip() == "GEN" else z3.simplify(null_guard(expr, env, lift(se.value(expr)).t)))
        mods = [m for m in mods if "@" not in m]
        self._gran = gran
        for exc, cnd, _ in raise_conds:
            cs = z3.simplify(cnd)
            if z3.is_false(cs):
                continue
            s2 = st.fork()
            s2.assume(cnd)
            if self.feasible(s2):
                self.havoc_after_call(s2, c, mods)
                self.throw(s2, exc, node, ctx)
        for exc, cnd in [(e, se.boolean(cd)) for e, cd in c.raises.items()]:
            st.assume(z3.Not(cnd))
        # normal exit
        old_heap_state = st.fork()
        old_heap_state.env = env
        n_pc0 = len(st.pc)
        self.havoc_after_call(st, c, mods)
        res = None
        if c.returns is not None and c.returns != NONE:
            res = fresh_value("ret!" + key.split(".")[-1], c.returns)
            self.typing_facts(st, res)
        post = st.fork()
        post.env = dict(env)
        if res is not None:
            post.env["result"] = res
        se2 = SpecEval(self, post, pre_state=old_heap_state)
        short = key.split(".", 1)[1] if "." in key else key
        for i_e, e in enumerate(c.ensures):
            n_before = len(post.pc)
            g_e = se2.boolean(e)
            # facts produced while evaluating the clause (typing facts under binders) come first, then the clause itself
            st.pc.extend(post.pc[len(st.pc):])
            st.assume(g_e, tag=f"{short}:{c.labels.get(e, i_e)}")
            post.pc = list(st.pc)
        st.pc.extend(post.pc[len(st.pc):])
        if c.returns == NONE or c.returns is None:
            return k(st, VNONE)
        res = self.alias_result(st, c, res, se2, n_pc0)
        self.learn_fresh(st, c, se2, old_heap_state.heap.alloc)
        return k(st, res)

    def learn_fresh(self, st, c, se2, alloc_before):
        """`fresh(E)` in a callee's ensures (unconditional, or under a condition that holds on this path): the object E was allocated during the call,
        so  alloc_before < E <= alloc_after  -- recorded for the heap-read resolution (TERM_BOUNDS)"""
        lo, hi = _alloc_form(alloc_before), _alloc_form(st.heap.alloc)
        if lo is None or hi is None or lo[2] or hi[2]:
            return
        for e in c.ensures:
            node = ast.parse(e.strip(), mode="eval").body
            cond = None
            if isinstance(node, ast.Call) and isinstance(node.func, ast.Name) and node.func.id == "implies" and len(node.args) == 2:
                cond, node = node.args[0], node.args[1]
            conj = node.values if isinstance(node, ast.BoolOp) and isinstance(node.op, ast.And) else [node]
            fr = [x.args[0] for x in conj if isinstance(x, ast.Call) and isinstance(x.func, ast.Name) and x.func.id == "fresh" and len(x.args) == 1]
            if not fr:
                continue
            if cond is not None:
                try:
                    cnd = se2.boolean(cond)
                except Unsupported:
                    continue
                sv = z3.Solver()
                sv.set("timeout", 2000)
                sv.add(*[h for h in st.pc if not z3.is_quantifier(h)])
                sv.add(z3.Not(cnd))
                if sv.check() != z3.unsat:
                    continue
            for x in fr:
                try:
                    v = se2.eval(x)
                except Unsupported:
                    continue
                if v.s[0] in ("ref", "list") and z3.is_expr(v.t):
                    TERM_BOUNDS[z3.simplify(v.t).get_id()] = ((lo[0], lo[1]), (hi[0], hi[1]))
                    TERM_BOUNDS[v.t.get_id()] = ((lo[0], lo[1]), (hi[0], hi[1]))

    def alias_result(self, st, c, res, se2, n_pc0):
        """a clause `result is E` / `implies(C, result is E)` whose condition holds on this path: the result IS that known reference,
        so the fresh constant standing for it is replaced by E (heap reads through it then resolve)"""
        if res is None or res.s[0] not in ("ref", "list") or not z3.is_const(res.t):
            return res
        for e in c.ensures:
            node = ast.parse(e.strip(), mode="eval").body
            cond, cmp_ = None, node
            if isinstance(node, ast.Call) and isinstance(node.func, ast.Name) and node.func.id == "implies" and len(node.args) == 2:
                cond, cmp_ = node.args[0], node.args[1]
            while isinstance(cmp_, ast.BoolOp) and isinstance(cmp_.op, ast.And):
                cmp_ = cmp_.values[0]
            if not (isinstance(cmp_, ast.Compare) and len(cmp_.ops) == 1 and isinstance(cmp_.ops[0], ast.Is)
                    and isinstance(cmp_.left, ast.Name) and cmp_.left.id == "result"):
                continue
            try:
                target = se2.eval(cmp_.comparators[0])
            except Unsupported:
                continue
            if target.s[0] not in ("ref", "list") or target.t.eq(res.t):
                continue
            if cond is not None:
                cnd = se2.boolean(cond)
                sv = z3.Solver()
                sv.set("timeout", 2000)
                sv.add(*[h for h in st.pc if not z3.is_quantifier(h)])
                sv.add(z3.Not(cnd))
                if sv.check() != z3.unsat:
                    continue
            sub = (res.t, target.t)
            new_pc = []
            for h in st.pc[n_pc0:]:
                h2 = z3.substitute(h, sub)
                if h.get_id() in TAGS:
                    TAGS[h2.get_id()] = TAGS[h.get_id()]
                new_pc.append(h2)
            st.pc[n_pc0:] = new_pc
            for nm in list(st.heap.arrs):
                st.heap.arrs[nm] = z3.substitute(st.heap.arrs[nm], sub)
            for g, gv in list(st.ghost.items()):
                if isinstance(gv.t, tuple):
                    st.ghost[g] = V(gv.s, tuple(z3.substitute(x, sub) if z3.is_expr(x) else x for x in gv.t))
                elif z3.is_expr(gv.t):
                    st.ghost[g] = V(gv.s, z3.substitute(gv.t, sub))
            return V(res.s, target.t)
        return res

    def havoc_after_call(self, st, c, mods):
        """effect of a callee known only by its contract: arrays named in `modifies` become arbitrary
        (the ensures clauses constrain them); every other array keeps its value on all objects that existed
        before the call (the callee may allocate and initialise fresh objects)."""
        alloc0 = st.heap.alloc
        modset = set()
        gran = getattr(self, "_gran", {}) or {}
        st.wlog.extend(mods)
        # cells of objects allocated after function entry are not effects on the state a loop / caller contract talks about
        st.wlog.extend(b_ for b_, objs_ in gran.items() if any(not _is_fresh_id(z3.simplify(o_)) for o_ in objs_))
        for m in mods:
            if m in GROUPS:
                modset |= set(GROUPS[m])
            elif m.startswith("ghost.") or m.startswith("global."):
                continue
            else:
                modset |= {m, m + "#n"}
        self.havoc_arrays(st, mods)
        # arrays touched only at named objects: make sure they exist before the allocation step
        gran_arrays = self.granular_arrays(st, gran)
        if c.allocates:
            for nm in list(st.heap.arrs):
                if nm in modset:
                    continue
                old = st.heap.arrs[nm]
                junk = fresh("al!" + nm, old.sort())
                o = z3.Int(f"o!{next(_fresh)}")
                # pre-existing objects keep their value, objects the callee allocated have arbitrary values
                st.heap.arrs[nm] = z3.Lambda([o], z3.If(o <= alloc0, z3.Select(old, o), z3.Select(junk, o)))
            na = fresh("alloc", z3.IntSort())
            st.assume(na >= alloc0)
            record_alloc(na, alloc0)
            st.heap.alloc = na
        self.apply_granular(st, gran_arrays, modset)

    def granular_arrays(self, st, gran):
        """{"Class.field" | "list": [object terms]} -> {array name: [object terms]} (arrays materialised)"""
        out = {}
        for base, objs in gran.items():
            if base in GROUPS:
                names = list(GROUPS[base])
            else:
                cname, fname = base.split(".", 1)
                fs = R.class_fields(cname)[fname]
                names = [base] + ([base + "#n"] if fs[0] in ("opt", "ids") else [])
            for nm in names:
                self.arr(st, nm)
                out.setdefault(nm, []).extend(objs)
        return out

    def apply_granular(self, st, gran_arrays, modset=()):
        for nm, objs in gran_arrays.items():
            if nm in modset:
                continue
            a = st.heap.arrs[nm]
            for ob_t in objs:
                if ob_t.eq(ALL_GEN):
                    own, junk = self.arr(st, "obj.owner"), fresh("gm!" + nm, a.sort())
                    o_ = z3.Int(f"o!{next(_fresh)}")
                    a = z3.Lambda([o_], z3.If(z3.Select(own, o_) == GEN, z3.Select(junk, o_), z3.Select(a, o_)))
                else:
                    a = z3.Store(a, ob_t, fresh("gm!" + nm, a.sort().range()))
            st.heap.arrs[nm] = a

    def site(self, node):
        return f"L{getattr(node, 'lineno', 0) + self.line_offset}"

    # ------------------------------------------------------------------ statements (CPS)
    def exec_block(self, stmts, st, k, ctx):
        if not stmts:
            return k(st)
        if self.contract is not None and self.contract.abstract:
            first = _first_line(stmts[0])
            for item in self.contract.abstract:
                if first == item["from"]:
                    if item["until"] is None:
                        j = len(stmts)          # to the end of the enclosing block
                    else:
                        j = next((n for n, s_ in enumerate(stmts) if _first_line(s_) == item["until"]), None)
                    if j is None:
                        raise Unsupported(f"abstracted block: end anchor {item['until']!r} not found (contract out of date)")
                    self.check_abstractable(stmts[:j], item)
                    for exc in item.get("raises", []):
                        # the block may raise these (declared; the condition is not modelled)
                        sb = st.fork()
                        sb.assume(fresh("abs_raise", z3.BoolSort()))
                        self.throw(sb, exc, stmts[0], ctx)
                    for nm in item["havoc"]:
                        st.env[nm] = V(("abstract",), nm)
                    self.abstracted.append({"from": item["from"], "until": item["until"], "statements": j, "note": item.get("note", "")})
                    return self.exec_block(stmts[j:], st, k, ctx)
        return self.exec_stmt(stmts[0], st, lambda s1: self.exec_block(stmts[1:], s1, k, ctx), ctx)

    def check_abstractable(self, stmts, item):
        """the block may only assign the listed locals and call the listed functions: it cannot touch any state a contract mentions"""
        allowed_calls = set(item.get("calls", []))
        havoc = set(item["havoc"])
        for s_ in stmts:
            for n in ast.walk(s_):
                if isinstance(n, ast.Raise):
                    nm = n.exc.func.id if isinstance(n.exc, ast.Call) and isinstance(n.exc.func, ast.Name) else None
                    if nm is None or nm not in item.get("raises", []):
                        raise Unsupported(f"abstracted block raises {nm}, which the contract does not declare")
                    continue
                if isinstance(n, (ast.Return, ast.Delete, ast.Global, ast.Nonlocal, ast.Yield, ast.FunctionDef, ast.Try, ast.With)):
                    raise Unsupported(f"abstracted block contains {type(n).__name__}")
                if isinstance(n, (ast.Assign, ast.AugAssign, ast.For)):
                    tgts = n.targets if isinstance(n, ast.Assign) else [n.target]
                    for t in tgts:
                        base = t
                        while isinstance(base, ast.Subscript):
                            base = base.value
                        if isinstance(base, ast.Attribute):
                            raise Unsupported("abstracted block stores to an attribute")
                        if isinstance(base, ast.Tuple):
                            names = [e.id for e in base.elts if isinstance(e, ast.Name)]
                        elif isinstance(base, ast.Name):
                            names = [base.id]
                        else:
                            raise Unsupported("abstracted block assignment target")
                        for nm in names:
                            if nm not in havoc:
                                raise Unsupported(f"abstracted block assigns {nm}, which the contract does not list")
                if isinstance(n, ast.Call):
                    f = n.func
                    name = f.attr if isinstance(f, ast.Attribute) else (f.id if isinstance(f, ast.Name) else None)
                    if name not in allowed_calls:
                        raise Unsupported(f"abstracted block calls {name}, which the contract does not allow")

    def exec_stmt(self, node, st, k, ctx):
        m = getattr(self, "st_" + type(node).__name__, None)
        if m is None:
            raise Unsupported(f"statement {type(node).__name__} at line {node.lineno}")

        before = self.contract.ghost_before if self.contract else {}
        if before:
            try:
                src0 = ast.unparse(node).split("\n")[0].strip()
            except Exception:
                src0 = ""
            if src0 in before:
                self.run_ghost(st, before[src0])
                self.anchors_hit.add(src0)

        def after(s1):
            sites = self.contract.assert_at if self.contract else {}
            if sites:
                try:
                    src_s = ast.unparse(node).split("\n")[0].strip()
                except Exception:
                    src_s = ""
                if src_s in sites:
                    from .specs import SpecEval
                    self.anchors_hit.add(src_s)
                    # ghost updates anchored at the same statement run first (a site may talk about them)
                    if src_s in (self.contract.ghost_at or {}):
                        self.run_ghost(s1, self.contract.ghost_at[src_s])
                        s1._ghost_done = src_s
                    for i_c, cl in enumerate(sites[src_s]):
                        g_c = SpecEval(self, s1, pre_state=s1.old).boolean(cl)
                        self.oblige(s1, g_c, "site", f"{self.contract.labels.get(cl, i_c)}", node, text=cl)
            anchors = self.contract.ghost_at if self.contract else {}
            if anchors and getattr(s1, "_ghost_done", None) is not None:
                done = s1._ghost_done
                s1._ghost_done = None
                try:
                    if ast.unparse(node).split("\n")[0].strip() == done:
                        self.anchors_hit.add(done)
                        return k(s1)
                except Exception:
                    pass
            if anchors:
                try:
                    src = ast.unparse(node).split("\n")[0].strip()
                except Exception:
                    src = ""
                if src in anchors:
                    self.run_ghost(s1, anchors[src])
                    self.anchors_hit.add(src)
            return k(s1)
        return m(node, st, after, ctx)

    def run_ghost(self, st, stmts):
        from .specs import SpecEval
        for g in stmts:
            tree = ast.parse(g.strip()).body[0]
            assert isinstance(tree, ast.Assign) and len(tree.targets) == 1
            tgt = tree.targets[0]
            se = SpecEval(self, st, pre_state=st.old)
            val = se.eval(tree.value)
            if isinstance(tgt, ast.Name):
                name = tgt.id
                sort = R.GHOSTS[name]
                self.ghost_get(st, "ghost." + name, sort)
                st.wlog.append("ghost." + name)
                st.ghost["ghost." + name] = self.coerce(val, sort) if sort[0] != "map" else val
            elif isinstance(tgt, ast.Subscript) and isinstance(tgt.value, ast.Name):
                name = tgt.value.id
                sort = R.GHOSTS[name]
                cur = self.ghost_get(st, "ghost." + name, sort)
                idx = se.eval(tgt.slice)
                st.wlog.append("ghost." + name)
                st.ghost["ghost." + name] = V(sort, z3.Store(cur.t, lift(idx).t, self.coerce(val, sort[2]).t))
            else:
                raise Unsupported("ghost assignment target")

    def st_Expr(self, node, st, k, ctx):
        if isinstance(node.value, ast.Constant):
            return k(st)   # docstring
        if isinstance(node.value, ast.Yield):
            return self.do_yield(node.value, st, k, ctx)
        return self.ev(node.value, st, lambda s1, v: k(s1), ctx)

    def do_yield(self, node, st, k, ctx):
        def f(s1, v):
            cv = self.oblige(s1, z3.BoolVal(False), "cover", "yield-reachable", node, text="the yield is reachable (vacuity guard)")
            cv.expect = "sat"
            s1.events.append(("yield", {"value": v, "pc_len": len(s1.pc)}))
            self.on_yield(s1, v, node)
            return k(s1)
        return self.ev(node.value, st, f, ctx)

    def on_yield(self, st, v, node):
        from .specs import SpecEval
        c = self.contract
        for i, cl in enumerate(getattr(c, "yield_ensures", []) or []):
            ps = st.fork()
            ps.env = dict(st.env)
            ps.env["yielded"] = v
            g = SpecEval(self, ps, pre_state=st.old).boolean(cl)
            self.oblige(st, g, "yield", f"{c.labels.get(cl, i)}", node, text=cl)
        for g in getattr(c, "ghost_on_yield", []) or []:
            st.env["yielded"] = v
            self.run_ghost(st, [g])
            del st.env["yielded"]

    def st_Pass(self, node, st, k, ctx):
        return k(st)

    def st_Global(self, node, st, k, ctx):
        return k(st)

    def st_FunctionDef(self, node, st, k, ctx):
        st.env[node.name] = V(("func",), f"{self.key}.{node.name}")
        return k(st)

    def st_Return(self, node, st, k, ctx):
        if node.value is None:
            return ctx.k_return(st, VNONE)
        return self.ev(node.value, st, lambda s1, v: ctx.k_return(s1, v), ctx)

    def st_Raise(self, node, st, k, ctx):
        e = node.exc
        if e is None:
            exc = st.env.get("$exc")
            if exc is None:
                raise Unsupported("bare raise outside handler")
            return self.throw(st, exc.t, node, ctx)
        if isinstance(e, ast.Call):
            if isinstance(e.func, ast.Name):
                return self.throw(st, e.func.id, node, ctx)
        if isinstance(e, ast.Name):
            v = st.env.get(e.id)
            if v is not None and v.s == ("exc",):
                return self.throw(st, v.t, node, ctx)
            return self.throw(st, e.id, node, ctx)
        raise Unsupported("raise form")

    def st_Assign(self, node, st, k, ctx):
        def f(s1, v):
            def go(i, s2):
                if i == len(node.targets):
                    return k(s2)
                return self.assign(node.targets[i], v, s2, lambda s3: go(i + 1, s3), ctx, node)
            return go(0, s1)
        return self.ev(node.value, st, f, ctx)

    def assign(self, tgt, v, st, k, ctx, node):
        if isinstance(tgt, ast.Name):
            mod = self.key.split(".")[0]
            if tgt.id in self.global_names and tgt.id in R.MODULE_GLOBALS.get(mod, {}):
                gname = f"global.{mod}.{tgt.id}"
                sort = R.MODULE_GLOBALS[mod][tgt.id]
                self.ghost_get(st, gname, sort)
                st.ghost[gname] = self.coerce(v, sort)
                self.writes.add(gname)
                st.wlog.append(gname)
                return k(st)
            st.env[tgt.id] = v
            return k(st)
        if isinstance(tgt, ast.Attribute):
            def f(s1, o):
                if o.s[0] == "opq" and o.s[1] in R.SCRATCH_OPAQUES:
                    return k(s1)      # a local third-party parameter object (e.g. Chem.SmilesParserParams): its attributes are not modelled
                if o.s[0] != "ref":
                    raise Unsupported(f"attribute store on {o}")
                def store(s2, cname):
                    if tgt.attr not in R.class_fields(cname):
                        skey = self.method_key(cname, tgt.attr + "@setter")
                        if skey:     # assignment to a property: its setter runs
                            return self.call_contract(s2, skey, [V(Ref(cname), o.t), v], {}, node, lambda s3, _: k(s3), ctx)
                    self.store_field(s2, o.t, cname, tgt.attr, v, node)
                    return k(s2)
                return self.dispatch(s1, o, node, ctx, store)
            return self.ev(tgt.value, st, f, ctx)
        if isinstance(tgt, ast.Tuple) and v.s == ("lit",):
            # value of ast.literal_eval: unpacking into n targets needs an n-tuple (TypeError / ValueError otherwise)
            from .externals import lit_arity, lit_num
            n = len(tgt.elts)
            s_bad = st.fork()
            s_bad.assume(lit_arity(v.t) != n)
            self.throw(s_bad, "ValueError", node, ctx)
            st.assume(lit_arity(v.t) == n)
            v = V(("tuple", tuple(REAL for _ in range(n))), tuple(V(REAL, lit_num(v.t, z3.IntVal(i))) for i in range(n)))
        if isinstance(tgt, ast.Tuple) and v.s[0] == "list" and v.s[1] != ("unk",):
            # unpacking a list into n names: ValueError unless it has exactly n elements
            n = len(tgt.elts)
            ln = self.list_len(st, v)
            s_bad = st.fork()
            s_bad.assume(ln != n)
            if self.feasible(s_bad):
                self.throw(s_bad, "ValueError", node, ctx)
            st.assume(ln == n)
            if st.infeasible:
                return
            v = V(("tuple", tuple(v.s[1] for _ in range(n))), tuple(self.list_get(st, v, z3.IntVal(i)) for i in range(n)))
        if isinstance(tgt, ast.Tuple):
            if v.s[0] != "tuple" or len(v.t) != len(tgt.elts):
                raise Unsupported("tuple unpacking")

            def go(i, s1):
                if i == len(tgt.elts):
                    return k(s1)
                return self.assign(tgt.elts[i], v.t[i], s1, lambda s2: go(i + 1, s2), ctx, node)
            return go(0, st)
        if isinstance(tgt, ast.Subscript):
            def f(s1, o):
                def g(s2, i):
                    if o.s[0] == "list":
                        val = self.coerce(v, o.s[1]) if o.s[1] != ("unk",) else lift(v)
                        ln = self.list_len(s2, o)
                        idx = self.norm_index(s2, lift(i).t, ln, node, ctx)
                        self.set_list(s2, o, elems_arr=z3.Store(self.list_elems(s2, o), idx, val.t), node=node)
                        return k(s2)
                    if o.s[0] == "dict":
                        self.dict_set(s2, o, i, v, node)
                        return k(s2)
                    raise Unsupported(f"subscript store on {o}")
                return self.ev(tgt.slice, s1, g, ctx)
            return self.ev(tgt.value, st, f, ctx)
        raise Unsupported(f"assignment target {type(tgt).__name__}")

    def st_AugAssign(self, node, st, k, ctx):
        tgt = node.target
        load = ast.copy_location(_as_load(tgt), tgt)

        def f(s1, cur):
            def g(s2, rhs):
                # in-place list / array operators
                if cur.s[0] == "list":
                    if isinstance(node.op, ast.Add) and rhs.s[0] == "list":
                        return self.ext_call("list.__iadd__", s2, node, [cur, rhs], {}, lambda s3, r: self.assign_same(tgt, r, cur, s3, k, ctx, node), ctx)
                    return self.ext_call("nparray.inplace", s2, node, [cur, rhs, py(type(node.op).__name__)], {}, lambda s3, r: self.assign_same(tgt, r, cur, s3, k, ctx, node), ctx)
                if cur.s[0] == "ref":
                    key = self.method_key(classes_of(cur.s)[0], "__iadd__") if isinstance(node.op, ast.Add) else None
                    if key:
                        return self.call_contract(s2, key, [cur, rhs], {}, node, lambda s3, r: self.assign_same(tgt, r, cur, s3, k, ctx, node), ctx)
                return self.arith(s2, node.op, cur, rhs, node, lambda s3, r: self.assign(tgt, r, s3, k, ctx, node), ctx)
            return self.ev(node.value, s1, g, ctx)
        return self.ev(load, st, f, ctx)

    def assign_same(self, tgt, r, cur, st, k, ctx, node):
        """after an in-place operator the target is rebound to the same object"""
        if isinstance(tgt, ast.Name):
            st.env[tgt.id] = r
            return k(st)
        if isinstance(tgt, ast.Attribute):
            return self.assign(tgt, r, st, k, ctx, node)
        if isinstance(tgt, ast.Subscript):
            return self.assign(tgt, r, st, k, ctx, node)
        raise Unsupported("augassign target")

    def st_If(self, node, st, k, ctx):
        def f(s1, c):
            t = z3.simplify(self.truth(s1, c))
            if z3.is_true(t):
                return self.exec_block(node.body, s1, k, ctx)
            if z3.is_false(t):
                return self.exec_block(node.orelse, s1, k, ctx)
            if self.merge_simple_if(node, s1, t, ctx):
                return k(s1)
            sa, sb = s1.fork(), s1.fork()
            sa.assume(t)
            sb.assume(z3.Not(t))
            if self.feasible(sa):
                self.exec_block(node.body, sa, k, ctx)
            if self.feasible(sb):
                self.exec_block(node.orelse, sb, k, ctx)
        return self.ev(node.test, st, f, ctx)

    def merge_simple_if(self, node, s1, t, ctx):
        """if-conversion: `if c: x = CONST; self.f = CONST` (no else, constants only) is executed without forking -- every variable / heap cell becomes
        ite(c, new, old).  Returns False (nothing changed) when the statement does not have that shape."""
        if node.orelse or not node.body or self.contract is None or not self.contract.merge_ifs:
            return False

        def const(v):
            if isinstance(v, ast.Constant):
                return True
            while isinstance(v, ast.Attribute):
                v = v.value
            return isinstance(v, ast.Name) and v.id in ("rc", "BT")
        for s_ in node.body:
            if not (isinstance(s_, ast.Assign) and len(s_.targets) == 1 and const(s_.value) and not isinstance(s_.value, ast.Name)):
                return False
            tg = s_.targets[0]
            if isinstance(tg, ast.Name):
                if tg.id not in s1.env or tg.id in self.global_names:
                    return False
            elif not (isinstance(tg, ast.Attribute) and isinstance(tg.value, ast.Name) and tg.value.id in s1.env and s1.env[tg.value.id].s[0] == "ref"
                      and len(classes_of(s1.env[tg.value.id].s)) == 1 and not s1.env[tg.value.id].s[2]
                      and tg.attr in R.class_fields(classes_of(s1.env[tg.value.id].s)[0])):
                return False
        sa = s1.fork()
        n0 = len(sa.pc)
        sa.assume(t)
        n_ob = len(self.obligations)
        done = []
        self.exec_block(node.body, sa, lambda s2: done.append(s2), ctx)
        if len(done) != 1:
            raise Unsupported("if-conversion: the branch did not come back exactly once")
        sA = done[0]
        # variables
        merged_env = {}
        for nm, va in sA.env.items():
            vb = s1.env.get(nm)
            if vb is None or va is vb:
                continue
            la, lb = (lift(va) if va.s == PY else va), (lift(vb) if vb.s == PY else vb)
            if la.s != lb.s or not z3.is_expr(la.t) or not z3.is_expr(lb.t):
                del self.obligations[n_ob:]
                return False
            merged_env[nm] = V(la.s, z3.If(t, la.t, lb.t))
        for nm, v in merged_env.items():
            s1.env[nm] = v
        for nm, a in sA.heap.arrs.items():
            b = self.arr(s1, nm)
            if not a.eq(b):
                s1.heap.arrs[nm] = z3.If(t, a, b)
        for nm, ga in sA.ghost.items():
            gb = s1.ghost.get(nm)
            if gb is not None and ga is not gb and z3.is_expr(ga.t) and z3.is_expr(gb.t) and not ga.t.eq(gb.t):
                s1.ghost[nm] = V(ga.s, z3.If(t, ga.t, gb.t))
        for fct in sA.pc[n0 + 1:]:
            s1.assume(z3.Implies(t, fct))
        s1.wlog = list(s1.wlog) + [w for w in sA.wlog[len(s1.wlog):]]
        return True

    def st_Assert(self, node, st, k, ctx):
        def f(s1, c):
            t = self.truth(s1, c)
            s2 = s1.fork()
            s2.assume(z3.Not(t))
            self.throw(s2, "AssertionError", node, ctx)
            s1.assume(t)
            return k(s1)
        return self.ev(node.test, st, f, ctx)

    def st_Delete(self, node, st, k, ctx):
        if len(node.targets) != 1 or not isinstance(node.targets[0], ast.Subscript):
            raise Unsupported("del form")
        t = node.targets[0]
        return self.ev(t.value, st, lambda s1, o: self.ev(t.slice, s1, lambda s2, i: self.ext_call("list.__delitem__", s2, node, [o, i], {}, lambda s3, _: k(s3), ctx), ctx), ctx)

    def st_Try(self, node, st, k, ctx):
        if node.finalbody:
            raise Unsupported("try/finally")

        def k_raise(s1, exc, n):
            for h in node.handlers:
                names = []
                if h.type is None:
                    names = ["Exception"]
                elif isinstance(h.type, ast.Name):
                    names = [h.type.id]
                elif isinstance(h.type, ast.Tuple):
                    names = [e.id for e in h.type.elts]
                if any(exc_isa(exc, nm) for nm in names):
                    s1.env = dict(s1.env)
                    s1.env["$exc"] = V(("exc",), exc)
                    if h.name:
                        s1.env[h.name] = V(("exc",), exc)
                    return self.exec_block(h.body, s1, k, ctx)
            return ctx.k_raise(s1, exc, n)
        inner = ctx.replace(k_raise=k_raise)
        return self.exec_block(node.body, st, lambda s1: self.exec_block(node.orelse, s1, k, ctx), inner)

    def st_Break(self, node, st, k, ctx):
        return ctx.k_break(st)

    def st_Continue(self, node, st, k, ctx):
        return ctx.k_continue(st)

    def st_While(self, node, st, k, ctx):
        from . import loops
        return loops.exec_while(self, node, st, k, ctx)

    def st_For(self, node, st, k, ctx):
        from . import loops
        return loops.exec_for(self, node, st, k, ctx)

    def st_With(self, node, st, k, ctx):
        # only `with open(...) as name:` -- the file object is an abstract sequence of lines (externals: open); closing it has no modelled effect
        it = node.items[0] if len(node.items) == 1 else None
        if it is None or not (isinstance(it.context_expr, ast.Call) and isinstance(it.context_expr.func, ast.Name) and it.context_expr.func.id == "open"
                              and isinstance(it.optional_vars, ast.Name)):
            raise Unsupported("with statement (only `with open(...) as name` is modelled)")

        def f(s1, v):
            s1.env[it.optional_vars.id] = v
            return self.exec_block(node.body, s1, k, ctx)
        return self.ev(it.context_expr, st, f, ctx)

    def st_Import(self, node, st, k, ctx):
        return k(st)

    def st_ImportFrom(self, node, st, k, ctx):
        return k(st)


def _first_line(stmt):
    try:
        return ast.unparse(stmt).split("\n")[0].strip()
    except Exception:
        return ""


def _as_load(t):
    t2 = ast.parse(ast.unparse(t), mode="eval").body
    return t2
