"""Discharge obligations: one solver process per query with a hard wall-clock kill.

Verdicts: 'discharged' (unsat of hyps and not goal), 'refuted' (sat; model text kept), 'undecided' (unknown / timeout).
z3 (the z3-solver 5.1 CLI `z3-new`, same version as the API that printed the query) first, then /usr/bin/cvc5 for what z3
leaves open (string queries: cvc5 --strings-exp).
"""
import os
import shutil
import subprocess
import tempfile
import time
from concurrent.futures import ThreadPoolExecutor

import z3

Z3BIN = shutil.which("z3-new") or shutil.which("z3")
CVC5BIN = shutil.which("cvc5") or "/usr/bin/cvc5"


def to_smt2(ob):
    s = z3.Solver()
    for h in ob.hyps:
        s.add(z3.simplify(h))
    s.add(z3.simplify(z3.Not(ob.goal)))
    txt = s.to_smt2()
    return txt


def has_quant(e, lambdas_count=True):
    seen = set()
    stack = [e]
    while stack:
        x = stack.pop()
        if x.get_id() in seen:
            continue
        seen.add(x.get_id())
        if z3.is_quantifier(x):
            if lambdas_count or not x.is_lambda():
                return True
            stack.append(x.body())
            continue
        stack.extend(x.children())
    return False


def symbols(e, acc=None):
    acc = set() if acc is None else acc
    seen = set()
    stack = [e]
    while stack:
        x = stack.pop()
        if x.get_id() in seen:
            continue
        seen.add(x.get_id())
        if z3.is_quantifier(x):
            stack.append(x.body())
            continue
        if z3.is_app(x):
            if x.decl().kind() == z3.Z3_OP_UNINTERPRETED:
                acc.add(x.decl().name())
            stack.extend(x.children())
    return acc


HEAPISH = ("H0!", "hv!", "al!", "lp!list", "lp!obj")


def sliced_variants(ob):
    """sub-sets of the hypotheses (always sound to drop hypotheses): tried when the full query is left open"""
    out = []
    qf = [h for h in ob.hyps if not has_quant(h)]
    if len(qf) < len(ob.hyps):
        out.append(("quantifier-free-hyps", qf))
    gs = {n for n in symbols(ob.goal)}
    rel = [h for h in ob.hyps if symbols(h) & gs]
    if 0 < len(rel) < len(ob.hyps):
        out.append(("hyps-sharing-a-symbol-with-goal", rel))
    gs2 = set(gs)
    for h in rel:
        gs2 |= {n for n in symbols(h) if not n.startswith(HEAPISH)}
    rel2 = [h for h in ob.hyps if symbols(h) & gs2]
    if len(rel) < len(rel2) < len(ob.hyps):
        out.append(("two-step-relevant-hyps", rel2))
    return out


def smt2_of(hyps, goal):
    s = z3.Solver()
    for h in hyps:
        s.add(z3.simplify(h))
    s.add(z3.simplify(z3.Not(goal)))
    return s.to_smt2()


def uses_strings(txt):
    return "String" in txt or "str." in txt


def run_z3(txt, timeout, want_model=True):
    with tempfile.NamedTemporaryFile("w", suffix=".smt2", delete=False, dir=os.environ.get("VERIF_TMP")) as f:
        body = txt
        if want_model:
            body = body.replace("(check-sat)", "(check-sat)\n(get-model)")
        f.write(body)
        path = f.name
    t0 = time.time()
    try:
        p = subprocess.run([Z3BIN, f"-T:{int(timeout)}", path], capture_output=True, text=True, timeout=timeout + 5)
        out = p.stdout.strip()
        if out.startswith("sat"):
            try:
                pv = subprocess.run([Z3BIN, "-T:10", "model_validate=true", path], capture_output=True, text=True, timeout=15)
                if "invalid model" in pv.stdout:
                    out = "unknown (z3 produced an invalid model)\n" + out
            except subprocess.TimeoutExpired:
                pass
    except subprocess.TimeoutExpired:
        out = "timeout"
    finally:
        os.unlink(path)
    dt = time.time() - t0
    first = out.split("\n", 1)[0].strip() if out else "error"
    return first, out, dt


def run_cvc5(txt, timeout):
    body = txt
    if "(set-logic" not in body:
        body = "(set-logic ALL)\n" + body
    with tempfile.NamedTemporaryFile("w", suffix=".smt2", delete=False, dir=os.environ.get("VERIF_TMP")) as f:
        f.write(body)
        path = f.name
    t0 = time.time()
    try:
        p = subprocess.run([CVC5BIN, "--strings-exp", f"--tlimit={int(timeout * 1000)}", path], capture_output=True,
                           text=True, timeout=timeout + 5)
        out = (p.stdout + p.stderr).strip()
    except subprocess.TimeoutExpired:
        out = "timeout"
    finally:
        os.unlink(path)
    dt = time.time() - t0
    first = out.split("\n", 1)[0].strip() if out else "error"
    return first, out, dt


def solve_one(ob, timeout):
    try:
        txt = to_smt2(ob)
    except Exception as e:  # printing failure is an engine problem, not a verdict
        ob.verdict, ob.detail, ob.solver, ob.seconds = "undecided", f"smt2 print failed: {e}", "-", 0.0
        return ob
    strs = uses_strings(txt)
    first, out, dt = run_z3(txt, timeout)
    ob.solver, ob.seconds = "z3-5.1", round(dt, 3)
    if first == "unsat":
        ob.verdict = "discharged"
    elif first == "sat":
        ob.verdict, ob.model = "refuted", out
    else:
        # second opinion
        f2, o2, d2 = run_cvc5(txt, timeout) if os.path.exists(CVC5BIN) else ("unknown", "", 0)
        ob.seconds = round(dt + d2, 3)
        if f2 == "unsat":
            ob.verdict, ob.solver = "discharged", "cvc5-1.0.3"
        elif f2 == "sat":
            ob.verdict, ob.solver, ob.model = "refuted", "cvc5-1.0.3", o2
        else:
            ob.verdict, ob.detail = "undecided", f"z3: {first[:80]} / cvc5: {f2[:80]}"
    return ob


async def _run_proc(cmd, timeout):
    import asyncio
    t0 = time.time()
    try:
        p = await asyncio.create_subprocess_exec(*cmd, stdout=asyncio.subprocess.PIPE, stderr=asyncio.subprocess.STDOUT)
    except Exception as e:
        return f"error {e}", time.time() - t0
    try:
        out, _ = await asyncio.wait_for(p.communicate(), timeout=timeout + 5)
        out = out.decode(errors="replace").strip()
    except asyncio.TimeoutError:
        try:
            p.kill()
        except ProcessLookupError:
            pass
        await p.wait()
        out = "timeout"
    return out, time.time() - t0


async def _solve_async(pairs, timeout_all, jobs, tmpdir, variants=None):
    variants = variants or {}
    import asyncio
    sem = asyncio.Semaphore(jobs)

    async def one(i, ob, txt):
        if txt is None:
            return
        async with sem:
            timeout = min(timeout_all, 3) if getattr(ob, "expect", None) == "sat" else timeout_all   # covers: model finding is cheap or hopeless
            path = os.path.join(tmpdir, f"q{i}.smt2")
            with open(path, "w") as f:
                f.write(txt.replace("(check-sat)", "(check-sat)\n(get-model)"))
            # model_validate: z3's sequence solver occasionally answers `sat` with a model that falsifies a hypothesis (seen on the descriptor round-trip lemma);
            # such an answer is no verdict -- the query goes on to cvc5 like an `unknown`
            out, dt = await _run_proc([Z3BIN, f"-T:{int(timeout)}", path], timeout)
            first = out.split("\n", 1)[0].strip() if out else "error"
            if first == "sat":
                # second run with validation, bounded.  z3's sequence solver occasionally answers `sat` with a model that falsifies a hypothesis.  A reported invalid model
                # sends the query to cvc5; if cvc5 does not decide it, z3's answer is withdrawn only for quantifier-free queries (validation cannot evaluate quantified
                # hypotheses reliably, so there an "invalid model" report proves nothing)
                outv, dtv = await _run_proc([Z3BIN, "-T:10", "model_validate=true", path], 10)
                dt += dtv
                if "invalid model" in outv:
                    with open(path, "w") as f:
                        f.write(txt if "(set-logic" in txt else "(set-logic ALL)\n" + txt)
                    oc, dc = await _run_proc([CVC5BIN, "--strings-exp", f"--tlimit={int(timeout * 1000)}", path], timeout)
                    fc = oc.split("\n", 1)[0].strip() if oc else "error"
                    dt += dc
                    if fc == "unsat":
                        ob.verdict, ob.solver, ob.seconds = "discharged", "cvc5-1.0.3", round(dt, 3)
                        try:
                            os.unlink(path)
                        except OSError:
                            pass
                        return
                    if fc != "sat" and not any(q in txt for q in ("(forall", "(exists", "(lambda")):
                        first = "unknown (z3 produced an invalid model)"
                    with open(path, "w") as f:
                        f.write(txt.replace("(check-sat)", "(check-sat)\n(get-model)"))
            ob.solver, ob.seconds = "z3-5.1", round(dt, 3)
            if first == "unsat":
                ob.verdict = "discharged"
            elif first == "sat":
                ob.verdict, ob.model = "refuted", out
            else:
                with open(path, "w") as f:
                    f.write(txt if "(set-logic" in txt else "(set-logic ALL)\n" + txt)
                o2, d2 = await _run_proc([CVC5BIN, "--strings-exp", f"--tlimit={int(timeout * 1000)}", path], timeout)
                f2 = o2.split("\n", 1)[0].strip() if o2 else "error"
                ob.seconds = round(dt + d2, 3)
                if f2 == "unsat":
                    ob.verdict, ob.solver = "discharged", "cvc5-1.0.3"
                elif f2 == "sat":
                    ob.verdict, ob.solver, ob.model = "refuted", "cvc5-1.0.3", o2
                else:
                    ob.verdict, ob.detail = "undecided", f"z3: {first[:80]} / cvc5: {f2[:80]}"
                    # third: sound weakenings of the query (fewer hypotheses); only unsat is conclusive
                    for label, vt in variants.get(i, []):
                        with open(path, "w") as f:
                            f.write(vt)
                        o3, d3 = await _run_proc([Z3BIN, f"-T:{int(timeout)}", path], timeout)
                        ob.seconds = round(ob.seconds + d3, 3)
                        if o3.split("\n", 1)[0].strip() == "unsat":
                            ob.verdict, ob.solver, ob.detail = "discharged", f"z3-5.1[{label}]", ""
                            break
            dump = os.environ.get("VERIF_DUMP")
            if dump and ob.verdict != "discharged":
                os.makedirs(dump, exist_ok=True)
                with open(os.path.join(dump, f"q{i}_{ob.verdict}.smt2"), "w") as f:
                    f.write(f"; {ob.name}\n; {ob.text}\n" + txt)
            try:
                os.unlink(path)
            except OSError:
                pass
    await asyncio.gather(*[one(i, ob, txt) for i, (ob, txt) in enumerate(pairs)])


async def _solve_variants(pairs, timeout, jobs, tmpdir):
    import asyncio
    sem = asyncio.Semaphore(jobs)

    async def one(n, ob, vs):
        async with sem:
            path = os.path.join(tmpdir, f"v{n}.smt2")
            for label, vt in vs:
                with open(path, "w") as f:
                    f.write(vt)
                o3, d3 = await _run_proc([Z3BIN, f"-T:{int(timeout)}", path], timeout)
                ob.seconds = round((ob.seconds or 0) + d3, 3)
                if o3.split("\n", 1)[0].strip() == "unsat":
                    ob.verdict, ob.solver, ob.detail = "discharged", f"z3-5.1[{label}]", ""
                    break
            try:
                os.unlink(path)
            except OSError:
                pass
    await asyncio.gather(*[one(n, ob, vs) for n, (ob, vs) in enumerate(pairs)])


def solve_all(obligations, timeout=10, jobs=14):
    """print every query with the z3 API (single thread), then run one solver process per query, `jobs` at a time,
    from a single-threaded asyncio loop (threads contend on the GIL and made tiny queries 30x slower)."""
    import asyncio
    texts = []
    for ob in obligations:
        if getattr(ob, "preset", False):       # decided at VC generation (syntactic): not sent to a solver
            texts.append(None)
            continue
        try:
            texts.append(to_smt2(ob))
        except Exception as e:
            texts.append(None)
            ob.verdict, ob.detail, ob.solver, ob.seconds = "undecided", f"smt2 print failed: {e}", "-", 0.0
    tmpdir = tempfile.mkdtemp(prefix="pyvc_", dir=os.environ.get("VERIF_TMP"))
    try:
        asyncio.run(_solve_async(list(zip(obligations, texts)), timeout, jobs, tmpdir, {}))
        # second pass, only for what is still open: sound weakenings of the query (printing them is the expensive part)
        open_idx = [i for i, ob in enumerate(obligations) if ob.verdict == "undecided" and getattr(ob, "expect", None) != "sat" and texts[i] is not None]
        if open_idx:
            pairs2 = []
            for i in open_idx:
                ob = obligations[i]
                try:
                    vs = [(lab, smt2_of(h, ob.goal)) for lab, h in sliced_variants(ob)]
                except Exception:
                    vs = []
                pairs2.append((ob, vs))
            asyncio.run(_solve_variants(pairs2, timeout, jobs, tmpdir))
    finally:
        shutil.rmtree(tmpdir, ignore_errors=True)
    for ob in obligations:
        if getattr(ob, "expect", None) == "sat":
            if ob.verdict == "refuted":
                ob.verdict, ob.model = "discharged", None
            elif ob.verdict == "discharged":
                ob.verdict, ob.detail = "refuted", "vacuous: the assumptions are contradictory"
    return obligations
