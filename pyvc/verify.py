"""Verify one function of the repository against its sidecar contract: generate all obligations."""
import ast
import time

import z3

from . import registry as R
from .engine import (ALL_GEN, GROUPS, GEN, null_guard, NOTATION, Ctx, Engine, Obligation, State, Unsupported, V, VNONE, _fresh, exc_isa, fresh_value,
                     lift, py)
from .frontend import own_loops
from .sorts import NONE, PY
from .specs import SpecEval


class FunctionResult:
    def __init__(self, key):
        self.key = key
        self.obligations = []
        self.undecided_reason = None
        self.paths = 0
        self.span = None
        self.module_sha = None
        self.reads = set()
        self.writes = set()
        self.unrolled = {}
        self.assumptions = set()
        self.calls = []
        self.seconds = 0.0
        self.scenario = None
        self.anchors_missing = []
        self.abstracted = []


def verify_function(key, sources, scenario=None, prune=True):
    t0 = time.time()
    c = R.CONTRACTS[key]
    res = FunctionResult(key)
    res.scenario = scenario
    try:
        fn = sources.find(key)
    except (KeyError, FileNotFoundError, SyntaxError) as e:
        res.undecided_reason = f"function not found in source: {e}"
        return res
    res.span = (fn.lineno, fn.end_lineno)
    res.module_sha = sources.sha[key.split(".")[0]]
    eng = Engine(sources, solver_prune=prune)
    from . import engine as _E
    _E.LOOK_THROUGH_FINAL[0] = not c.opaque_final_heap
    eng.key, eng.contract = key, c
    eng.line_offset = 0
    eng.loop_ids = {id(l): i + 1 for i, l in enumerate(own_loops(fn))}
    eng.global_names = sources.global_names(fn)
    eng.unrolled = {}
    eng.anchors_hit = set()
    try:
        _run(eng, c, fn, scenario)
    except Unsupported as e:
        res.undecided_reason = f"unsupported: {e}"
    except RecursionError:
        res.undecided_reason = "engine recursion limit"
    for a in list(c.ghost_at) + list(c.ghost_before) + list(c.assert_at):
        if a not in eng.anchors_hit and res.undecided_reason is None:
            res.undecided_reason = f"ghost anchor {a!r} not found in the function (contract out of date)"
    # declared loop contracts must all correspond to a loop
    for n in c.loops:
        if n > len(eng.loop_ids) and res.undecided_reason is None:
            res.undecided_reason = f"contract has an invariant for loop {n} but the function has {len(eng.loop_ids)} loops (contract out of date)"
    if c.reads is not None and res.undecided_reason is None:
        # read frame: the function's result can depend only on the heap locations it reads; every read is recorded by the engine
        extra = sorted(r for r in eng.reads if r not in set(eng.expand_modifies(c.reads)) and not r.startswith("global."))
        ob = eng.oblige(State(), z3.BoolVal(not extra), "read-frame", "declared", fn,
                        text=f"heap locations read are among {sorted(c.reads)}" + (f"; also reads {extra}" if extra else ""))
        ob.detail = f"reads outside the declared read frame: {extra}" if extra else ""
    res.obligations = eng.obligations
    if scenario is not None:
        for ob in res.obligations:
            ob.name = ob.name.replace(key + "/", f"{key}{{{scenario['name']}}}/", 1)
    res.paths = eng.paths
    res.reads, res.writes = eng.reads, eng.writes
    res.unrolled = eng.unrolled
    res.assumptions = eng.assumption_log
    res.calls = sorted(set(eng.calls_seen))
    res.abstracted = eng.abstracted
    res.seconds = time.time() - t0
    return res


def _run(eng, c, fn, scenario):
    st = State()
    st.heap.alloc = z3.Int("alloc0")
    st.assume(st.heap.alloc >= 0)
    argnames = [a.arg for a in fn.args.args]
    for n in argnames:
        if n not in c.params:
            raise Unsupported(f"parameter {n} of {c.key} has no declared sort")
    for n, s in list(c.params.items()) + list(c.captured.items()):
        if s is None:
            st.env[n] = VNONE
            continue
        if s[0] == "func":
            st.env[n] = V(("func",), s[1])
            continue
        v = fresh_value(n, s)
        st.env[n] = v
        eng.typing_facts(st, v)
        if s[0] in ("ref", "list") and z3.is_expr(v.t):
            eng.param_consts = (eng.param_consts or set()) | {v.t.decl().name()}
    st.old = st.fork()
    st.old.old = None
    se = SpecEval(eng, st, pre_state=st.old)
    reqs = list(c.requires) + list((scenario or {}).get("requires", []))
    for i_r, r in enumerate(reqs):
        st.assume(se.boolean(r), tag=f"requires:{c.labels.get(r, i_r)}")
    for i_a, a_ in enumerate(c.assumes):
        st.assume(se.boolean(a_), tag=f"requires:{c.labels.get(a_, 'assumed-' + str(i_a))}")
        eng.assumption_log.add(f"assumed invariant of parsed notation objects at entry of {c.key}: {c.labels.get(a_, a_)[:120]} (established by the string-surgery constructors; "
                               "checked natively on every parsed object by the bounded C02 driver; generation never writes notation-owned objects: frame obligations)")
    # old state must see the facts assumed so far and the arrays materialised by the requires
    st.old = st.fork()
    st.old.old = None
    eng.oblige(st, z3.BoolVal(False), "cover", "requires-satisfiable", fn, text="requires are satisfiable (expected: refuted = reachable)")
    eng.obligations[-1].expect = "sat"

    covered = {"exit": False}

    def exit_normal(s, v):
        eng.paths += 1
        if not covered["exit"]:
            covered["exit"] = True
            cv = eng.oblige(s, z3.BoolVal(False), "cover", "normal-exit-reachable", fn, text="a normal exit path is satisfiable (vacuity guard)")
            cv.expect = "sat"
        post = s
        post.env = dict(post.env)
        if c.returns is not None and c.returns != NONE:
            post.env["result"] = eng.coerce(v, c.returns)
        elif c.returns == NONE or c.returns is None:
            post.env["result"] = VNONE
        if c.ghost_on_return:
            eng.run_ghost(post, c.ghost_on_return)
        for exc, cond in c.raises.items():
            g = SpecEval(eng, _pre_view(post), pre_state=None).boolean(cond)
            eng.oblige(post, z3.Not(g), "must-raise", f"{exc}", fn, text=f"normal return only if not ({cond})")
        # name the final heap: every array that is a compound term gets a constant F!<name> with a defining equation, so that the
        # postconditions (and the lemma-only sub-proofs) are stated over plain arrays
        for nm, term in list(post.heap.arrs.items()):
            if z3.is_const(term) and term.decl().kind() == z3.Z3_OP_UNINTERPRETED:
                continue
            fin = z3.Const(f"F!{nm}!{next(_fresh)}", term.sort())
            from .engine import ARRAY_DEFS
            ARRAY_DEFS[fin.decl().name()] = term
            post.assume(fin == term)
            post.heap.arrs[nm] = fin
        # each clause is proved with the clauses before it as lemmas (they are proved on this very path, so this is sound;
        # if an earlier one fails the check fails anyway)
        proved = {}
        for i, e in enumerate(c.ensures):
            lab = c.labels.get(e, str(i))
            g = SpecEval(eng, post, pre_state=post.old).boolean(e)
            only = c.from_lemmas.get(lab)
            if only is not None:
                # proof decomposition: this clause follows from the entry facts (requires, typing) and the named earlier clauses alone
                sub = post.fork()
                n_goal_facts = len(post.pc)
                sub.pc = list(post.old.pc)
                for u in only:
                    if u not in proved:
                        raise Unsupported(f"clause {lab} is derived from {u}, which is not an earlier ensures clause")
                    sub.assume(proved[u])
                g = SpecEval(eng, sub, pre_state=post.old).boolean(e)
                eng.oblige(sub, g, "post", lab, fn, text=e + "   [from entry facts and: " + ", ".join(only) + "]")
                proved[lab] = g
                continue
            uses = c.use_lemmas.get(lab, [])
            if uses:
                sub = post.fork()
                for u in uses:
                    if u not in proved:
                        raise Unsupported(f"clause {lab} uses lemma {u}, which is not an earlier ensures clause")
                    sub.assume(proved[u])
                sub.pc.extend(post.pc[len(sub.pc) - len(uses):]) if False else None
                eng.oblige(sub, g, "post", lab, fn, text=e + "   [using: " + ", ".join(uses) + "]")
            else:
                eng.oblige(post, g, "post", lab, fn, text=e)
            proved[lab] = g
        frame_obligations(eng, c, post, fn)

    def exit_raise(s, exc, node):
        eng.paths += 1
        declared = None
        for e2, cond in list(c.raises.items()) + list(c.raises_may.items()):
            if exc_isa(exc, e2):
                declared = (e2, cond)
                break
        if declared is None:
            eng.oblige(s, z3.BoolVal(False), "safe", f"{exc}", node, text=f"{exc} cannot be raised here")
        else:
            g = SpecEval(eng, _pre_view(s), pre_state=None).boolean(declared[1])
            eng.oblige(s, g, "raises-only", f"{declared[0]}", node, text=f"{exc} raised only if {declared[1]}")
            if c.frame_on_raise:
                frame_obligations(eng, c, s, node)
        for i_x, cl in enumerate(c.ensures_on_raise):
            g_x = SpecEval(eng, s, pre_state=s.old).boolean(cl)
            eng.oblige(s, g_x, "on-raise", f"{c.labels.get(cl, i_x)}", node, text=f"when {exc} leaves the function: {cl}")

    ctx = Ctx(exit_normal, exit_raise)
    eng.exec_block(fn.body, st, lambda s: exit_normal(s, VNONE), ctx)


def _pre_view(s):
    """the pre-state (heap, ghosts, parameters at entry) carrying the path condition of s"""
    v = s.old.fork()
    v.old = None
    v.pc = s.pc
    return v


def frame_obligations(eng, c, st, node):
    mods = set()
    gran = {}
    for m in eng.expand_modifies(c.modifies):
        if "@" in m:
            base, expr = m.split("@", 1)
            names = list(GROUPS[base]) if base in GROUPS else [base, base + "#n"]
            ot = ALL_GEN if expr.strip() == "GEN" else null_guard(expr, _pre_view(st).env, lift(SpecEval(eng, _pre_view(st), pre_state=None).value(expr)).t)
            for nm in names:
                gran.setdefault(nm, []).append(ot)
            continue
        if m in GROUPS:
            mods |= set(GROUPS[m])
        else:
            mods |= {m, m + "#n"}
    alloc0 = st.old.heap.alloc
    for nm, now in st.heap.arrs.items():
        if nm in mods or nm in ("obj.tag", "obj.owner"):
            continue
        before = st.old.heap.arrs.get(nm)
        if before is None or now.eq(before):
            continue
        o = z3.Int(f"o!{next(_fresh)}")
        own0 = st.old.heap.arrs.get("obj.owner")
        excl = [(z3.Select(own0 if own0 is not None else eng.arr(st, "obj.owner"), o) != GEN) if x.eq(ALL_GEN) else (o != x) for x in gran.get(nm, [])]
        g = z3.ForAll([o], z3.Implies(z3.And(o >= 1, o <= alloc0, *excl), z3.Select(now, o) == z3.Select(before, o)))
        eng.oblige(st, g, "frame", nm, node, text=f"{nm} of every pre-existing object is unchanged" + (" except the objects named in modifies" if excl else " (not in modifies)"))
    for gname, now in st.ghost.items():
        if gname in mods:
            continue
        before = st.old.ghost.get(gname)
        if before is None or before is now:
            continue
        if isinstance(now.t, tuple):
            same = z3.And([a == b if not isinstance(a, V) else a.t == b.t for a, b in zip(now.t, before.t)])
        else:
            if now.t is before.t or (z3.is_expr(now.t) and now.t.eq(before.t)):
                continue
            same = now.t == before.t
        eng.oblige(st, same, "frame", gname, node, text=f"{gname} unchanged (not in modifies)")


def verify_lemma(name):
    """a lemma is a closed formula over spec functions / uninterpreted functions with their defining axioms"""
    lm = R.LEMMAS[name]
    eng = Engine(None, solver_prune=False)
    eng.key, eng.contract = "lemma." + name, R.Contract("lemma." + name, props=lm.props)
    eng.line_offset = 0
    st = State()
    st.heap.alloc = z3.Int("alloc0")
    for n, s in lm.vars.items():
        st.env[n] = fresh_value(n, s) if s[0] != "map" else V(s, z3.Const(n, z3.ArraySort(*[_zs(x) for x in s[1:]])))
    st.old = st.fork()
    se = SpecEval(eng, st, pre_state=st.old)
    for h in lm.hyps:
        st.assume(se.boolean(h))
    for ax in R.AXIOMS.get(name, []):
        st.assume(ax())
    ob = eng.oblige(st, se.boolean(lm.goal), "lemma" if not lm.expect_refuted else "non-lemma", name, None,
                    text=lm.goal + ("   [expected NOT to follow: a counterexample must exist]" if lm.expect_refuted else ""))
    if lm.expect_refuted:
        ob.expect = "sat"
    return eng.obligations


def _zs(s):
    from .engine import z3sort
    return z3sort(s)


R.AXIOMS = {}
