"""Check driver:  python -m pyvc.run <PROPERTY> --tier quick|thorough   (called by /verif/check)

exit 0  every locked obligation of the property discharged and the bounded layer clean (known findings printed)
exit 1  a locked obligation is refuted, or the bounded contract monitor saw a violation that is not a known finding
        -> prints  VIOLATION property=<id> replay=<path> [no-failing-input-found]
exit 2  undecided (solver unknown / unsupported construct / contract out of date): printed as UNDECIDED, never as a violation
exit 3  the checker itself failed
"""
import argparse
import importlib
import json
import os
import re
import sys
import time
import traceback

HERE = os.path.dirname(os.path.dirname(os.path.abspath(__file__)))
sys.path.insert(0, HERE)

LOCK = os.path.join(HERE, "obligations.lock")
KNOWN = os.path.join(HERE, "KNOWN_FINDINGS.txt")
_OUT = os.environ.get("VERIF_OUT", HERE)      # tools/matrix.py redirects the outputs of runs on scratch copies
EVID = os.path.join(_OUT, "evidence")
REPLAY = os.path.join(_OUT, "replays")


def load_contracts():
    import contracts  # noqa: F401  (imports every contract module)
    from pyvc import registry as R
    return R


def stable_name(name):
    return re.sub(r"@L\d+", "", name)


def read_lock():
    out = {}
    if os.path.exists(LOCK):
        for line in open(LOCK):
            line = line.strip()
            if not line or line.startswith("#"):
                continue
            prop, name = line.split(" ", 1)
            if "/cover[" in name:
                continue        # vacuity covers are reported, never required (a model search that times out is not a verdict)
            out.setdefault(prop, set()).add(name)
    return out


def read_known():
    """lines:  open: property=<id> key=<finding key> <text>   |   fixed: property=<id> <commit> <text>"""
    out = []
    if os.path.exists(KNOWN):
        for line in open(KNOWN):
            line = line.strip()
            if line.startswith("open:"):
                m = re.match(r"open:\s+property=(\S+)\s+key=(\S+)\s+(.*)", line)
                if m:
                    out.append({"property": m.group(1), "key": m.group(2), "text": m.group(3)})
    return out


def prove(prop, tier, R, only_keys=None):
    """generate and solve all obligations of the functions and lemmas that carry `prop`"""
    from pyvc.frontend import Sources
    from pyvc.solve import solve_all
    from pyvc.verify import verify_function, verify_lemma
    src = Sources()
    funcs, obligations, undecided = [], [], []
    for key, c in R.CONTRACTS.items():
        if prop not in c.props or c.trusted:
            continue
        if only_keys and key not in only_keys:
            continue
        scenarios = c.scenarios or [None]
        for sc in scenarios:
            if sc is not None and tier == "quick" and sc.get("tier") == "thorough":
                continue
            r = verify_function(key, src, scenario=sc)
            funcs.append(r)
            if r.undecided_reason:
                undecided.append((key, r.undecided_reason))
            for ob in r.obligations:
                if c.clause_props:
                    # obligations are distributed over the properties the contract serves; unlisted ones belong to the first property
                    m = re.search(r"/([a-z-]+)\[(.*)\]$", ob.name)
                    kind, detail = (m.group(1), m.group(2)) if m else ("", "")
                    owners = c.clause_props.get(detail) or c.clause_props.get(kind) or c.props[:1]
                    if prop not in owners:
                        continue
                obligations.append(ob)
    for name, lm in R.LEMMAS.items():
        if prop in lm.props:
            obligations += verify_lemma(name)
    effects = []
    if prop in ("C10", "C18", "C04", "C11"):
        from pyvc.effects import effect_obligations
        effects = [o for o in effect_obligations() if (prop == "C10" and "bonds-are-made-only" not in o.name)
                   or (prop == "C18" and (".graph_generate." in o.name or ".stochastic_atom_graph." in o.name))
                   or (prop == "C04" and "bonds-are-made-only" in o.name)
                   # a law "with its own parameters" has no state shared between distribution objects
                   or (prop == "C11" and ".distribution." in o.name and "no-module-state" in o.name)]
    # per-query wall-clock budget: obligations enter the lock only if they discharge well inside it on the unchanged tree (the slowest locked one takes < 5 s),
    # so that a busy machine does not flip a verdict
    timeout = 30 if tier == "quick" else 90
    t0 = time.time()
    solve_all(obligations, timeout=timeout)
    obligations += effects          # decided on the syntax tree (back end "syntactic")
    return funcs, obligations, undecided, time.time() - t0, src


def group(obligations):
    g = {}
    for ob in obligations:
        n = stable_name(ob.name)
        e = g.setdefault(n, {"name": n, "verdicts": [], "obs": [], "kind": ob.kind, "text": ob.text})
        e["verdicts"].append(ob.verdict)
        e["obs"].append(ob)
    for e in g.values():
        vs = e["verdicts"]
        e["verdict"] = "refuted" if "refuted" in vs else ("undecided" if "undecided" in vs else "discharged")
        e["seconds"] = round(sum(o.seconds or 0 for o in e["obs"]), 3)
        e["solvers"] = sorted({o.solver for o in e["obs"] if o.solver})
    return g


def trusted_list(R, prop):
    out = []
    for key, c in R.CONTRACTS.items():
        if c.trusted and prop in c.props:
            out.append(f"assumed contract (body not verified): {key} -- {c.why_trusted}")
    return out


def main(argv=None):
    ap = argparse.ArgumentParser()
    ap.add_argument("prop")
    ap.add_argument("--tier", default=os.environ.get("VERIF_TIER", "quick"))
    ap.add_argument("--replay")
    ap.add_argument("--write-lock", action="store_true", help="maintenance: record the discharged obligations as required")
    ap.add_argument("--no-bounded", action="store_true")
    ap.add_argument("--bounded-only", action="store_true", help="development: skip the proof part")
    ap.add_argument("--verbose", "-v", action="store_true")
    args = ap.parse_args(argv)
    prop, tier = args.prop, args.tier
    global EVID
    if args.no_bounded or args.bounded_only or args.write_lock:
        EVID = os.path.join(_OUT, "evidence-dev")      # development runs of one layer never overwrite the evidence of a full check
    seed = int(os.environ.get("VERIF_SEED", "0"))
    t_start = time.time()
    os.makedirs(EVID, exist_ok=True)
    os.makedirs(os.path.join(REPLAY, prop), exist_ok=True)
    try:
        R = load_contracts()
        if args.replay:
            from monitor import replay
            return replay.run(prop, args.replay)
        for fn in os.listdir(os.path.join(REPLAY, prop)):
            if fn.endswith(".json"):
                os.unlink(os.path.join(REPLAY, prop, fn))
        if args.bounded_only:
            from pyvc.frontend import Sources
            funcs, obligations, undecided_fns, solve_s, src = [], [], [], 0.0, Sources()
        else:
            funcs, obligations, undecided_fns, solve_s, src = prove(prop, tier, R)
        groups = group(obligations)
        # a function the engine could not execute completely proves nothing: none of its obligations count
        und_keys = {k for k, _ in undecided_fns}
        for n, g in groups.items():
            if any(n.startswith(k + "/") or n.startswith(k + "{") for k in und_keys) and g["verdict"] == "discharged":
                g["verdict"] = "undecided"
                for o in g["obs"]:
                    o.detail = "function undecided: " + next(w for k, w in undecided_fns if n.startswith(k))
        lock = read_lock().get(prop, set()) if not args.bounded_only else set()
        known = [k for k in read_known() if k["property"] == prop]
        if args.write_lock:
            return write_lock(prop, groups, undecided_fns)
        # ---- classify proof results against the lock
        refuted = [g for n, g in groups.items() if g["verdict"] == "refuted" and n in lock]
        # a frame / ownership obligation that did not exist on the unchanged tree (the code now writes a location it did not write before) must hold as well
        new_frame = [g for n, g in groups.items() if n not in lock and g["kind"] in ("frame", "frame-owner", "effect") and g["verdict"] != "discharged" and lock]
        refuted += [g for g in new_frame if g["verdict"] == "refuted"]
        open_locked_extra = [g for g in new_frame if g["verdict"] == "undecided"]
        new_refuted = [g for n, g in groups.items() if g["verdict"] == "refuted" and n not in lock and g not in refuted]
        missing = sorted(n for n in lock if n not in groups)
        # vacuity covers ask the solver for a MODEL of quantified assumptions: a timeout there is not a verdict about the property and is only noted
        # (a cover that is REFUTED -- contradictory assumptions -- is reported); every other locked obligation must discharge
        open_locked = [g for n, g in groups.items() if g["verdict"] == "undecided" and n in lock and g["kind"] != "cover"] + open_locked_extra
        covers_open = [n for n, g in groups.items() if g["verdict"] == "undecided" and g["kind"] == "cover"]
        discharged = [g for n, g in groups.items() if g["verdict"] == "discharged"]
        # ---- bounded layer (same contracts at run time on the real code)
        bounded = None
        if not args.no_bounded:
            try:
                mod = importlib.import_module(f"monitor.drive_{prop}")
            except ModuleNotFoundError as e:
                if f"drive_{prop}" not in str(e):
                    raise
                mod = None
            if mod is not None:
                bounded = mod.run(tier=tier, seed=seed)
        violations, known_hits = [], []
        for g in refuted:
            violations.append({"source": "proof", "obligation": g["name"], "text": g["text"],
                               "model": next((o.model for o in g["obs"] if o.verdict == "refuted" and o.model), None),
                               "detail": next((o.detail for o in g["obs"] if o.verdict == "refuted"), "")})
        if bounded:
            for v in bounded.get("violations", []):
                hit = next((k for k in known if k["key"] == v.get("key")), None)
                if hit:
                    known_hits.append((hit, v))
                else:
                    violations.append(dict(v, source="bounded"))
        # ---- report
        for hit, v in known_hits:
            print(f"KNOWN-FINDING: property={prop} {hit['key']}: {hit['text']}")
        seen = set()
        for k0 in known:
            # a pinned finding that no longer reproduces is simply not printed
            pass
        rc = 0
        replay_paths = []
        if violations:
            rc = 1
            # attach a concrete failing input found by the bounded layer to proof violations where there is one
            concrete = [v for v in violations if v["source"] == "bounded"]
            for i, v in enumerate(violations):
                name = re.sub(r"[^A-Za-z0-9_.-]+", "_", v.get("obligation") or v.get("key") or f"v{i}")[:120]
                path = os.path.join(REPLAY, prop, f"{name}.json")
                body = dict(v)
                body["property"] = prop
                if v["source"] == "proof":
                    body["failed_obligation"] = v["obligation"]
                    body["verifier_output"] = v.get("model")
                    body["failing_input"] = concrete[0].get("input") if concrete else None
                with open(path, "w") as f:
                    json.dump(body, f, indent=1, default=str)
                tail = "" if (v["source"] == "bounded" or concrete) else " no-failing-input-found"
                print(f"VIOLATION property={prop} replay={path}{tail}")
                replay_paths.append(path)
        elif undecided_fns or open_locked or missing or any(g["kind"] == "cover" and g["verdict"] == "refuted" for g in groups.values()):
            rc = 2
            for n, g in groups.items():
                if g["kind"] == "cover" and g["verdict"] == "refuted":
                    print(f"UNDECIDED property={prop} obligation={n}: the assumptions of this function are contradictory (vacuous proof)")
            for key, why in undecided_fns:
                print(f"UNDECIDED property={prop} function={key}: {why}")
            for g in open_locked:
                print(f"UNDECIDED property={prop} obligation={g['name']}: {next((o.detail for o in g['obs'] if o.verdict == 'undecided'), '')}")
            for n in missing:
                print(f"UNDECIDED property={prop} obligation={n}: required obligation was not generated (contract out of date)")
        if bounded and bounded.get("crashes") and rc == 0:
            rc = 3
            for cr in bounded["crashes"][:3]:
                print(f"CHECKER-ERROR property={prop} bounded driver crashed: {cr['error']} on {cr['task'][:120]}")
        if bounded and bounded.get("timeouts") and rc == 0:
            rc = 2
            for t in bounded["timeouts"][:3]:
                print(f"UNDECIDED property={prop} bounded case ran out of time/memory: {str(t)[:160]}")
        for g in new_refuted:
            print(f"NOTE property={prop} obligation={g['name']} is refuted but not locked (not required; see DESIGN 2.8)")
        if covers_open and args.verbose:
            print(f"NOTE property={prop} {len(covers_open)} vacuity covers without a model within the budget (not a verdict)")
        selftest = None
        if tier == "thorough" and not args.bounded_only and not os.environ.get("VERIF_REPO_SRC"):
            selftest = mutation_self_test(prop)
            for row in selftest:
                if row.get("result") == "SURVIVED" and rc == 0:
                    rc = 3
                    print(f"CHECKER-ERROR property={prop} mutation self-test: seeded change {row['change']} no longer breaks any obligation of the proof layer")
        write_evidence(prop, tier, seed, R, funcs, groups, lock, bounded, violations, known_hits, undecided_fns, solve_s,
                       time.time() - t_start, src, selftest)
        n_req = len(lock)
        n_ok = sum(1 for n in lock if n in groups and (groups[n]["verdict"] == "discharged" or (groups[n]["kind"] == "cover" and groups[n]["verdict"] == "undecided")))
        print(f"{prop} [{tier}] obligations required={n_req} discharged={n_ok} generated={len(groups)} "
              f"functions={len(funcs)} bounded_evaluations={(bounded or {}).get('evaluations', 0)} "
              f"violations={len(violations)} known_findings={len(known_hits)} wall={time.time() - t_start:.1f}s")
        if args.verbose:
            for n, g in sorted(groups.items()):
                print(f"   {g['verdict']:11s} {g['seconds']:7.3f}s x{len(g['obs']):<3d} {n}")
        return rc
    except Exception:
        traceback.print_exc()
        print(f"CHECKER-ERROR property={prop}")
        return 3


def mutation_self_test(prop):
    """thorough tier: the seeded changes of this property that the deductive layer is known to notice (seeded/<id>/detection_proof.json) are applied to
    a scratch copy of /repo's working tree (outside /repo and /verif, removed afterwards); the proof layer must again fail to discharge an obligation there.
    A survivor means the contracts or the engine got weaker: reported as a checker error (exit 3), not as a verdict about the property."""
    import shutil
    import subprocess
    import tempfile
    seeded = os.path.join(HERE, "seeded")
    rows = []
    repo = os.environ.get("VERIF_REPO", "/repo")
    for name in sorted(os.listdir(seeded)) if os.path.isdir(seeded) else []:
        d = os.path.join(seeded, name)
        pj = os.path.join(d, "detection_proof.json")
        if not name.startswith(prop + "-") or not os.path.exists(pj):
            continue
        if json.load(open(pj)).get("exit") not in (1, 2):
            continue
        tmp = tempfile.mkdtemp(prefix=f"verif_selftest_{name}_")
        try:
            shutil.copytree(os.path.join(repo, "src"), os.path.join(tmp, "src"))
            p = subprocess.run(["patch", "-p1", "-s", "-i", os.path.join(d, "patch.diff")], cwd=tmp, capture_output=True, text=True)
            if p.returncode != 0:
                rows.append({"change": name, "result": "patch does not apply to the current tree (skipped)"})
                continue
            env = dict(os.environ, VERIF_REPO_SRC=os.path.join(tmp, "src", "gbigsmiles"), VERIF_OUT=os.path.join(tmp, "out"), PYTHONPATH=os.path.join(tmp, "src"))
            os.makedirs(os.path.join(tmp, "out"), exist_ok=True)
            r = subprocess.run([sys.executable, "-m", "pyvc.run", prop, "--tier", "quick", "--no-bounded"], cwd=HERE, env=env, capture_output=True, text=True, timeout=3600)
            rows.append({"change": name, "proof_layer_exit": r.returncode, "result": "noticed" if r.returncode in (1, 2) else "SURVIVED"})
        finally:
            shutil.rmtree(tmp, ignore_errors=True)
    return rows


def write_lock(prop, groups, undecided_fns):
    if undecided_fns:
        for key, why in undecided_fns:
            print(f"cannot lock: {key} undecided: {why}")
    cur = {}
    if os.path.exists(LOCK):
        for line in open(LOCK):
            line = line.rstrip("\n")
            if not line or line.startswith("#"):
                continue
            p, n = line.split(" ", 1)
            cur.setdefault(p, set()).add(n)
    keep = set()
    for n, g in groups.items():
        if g["kind"] == "cover":
            continue
        if g["verdict"] == "discharged":
            keep.add(n)
        else:
            print(f"not locked ({g['verdict']}): {n}")
    cur[prop] = keep
    with open(LOCK, "w") as f:
        f.write("# obligations each check requires: <property> <obligation name>.  Written only by `check <id> --write-lock`.\n")
        for p in sorted(cur):
            for n in sorted(cur[p]):
                f.write(f"{p} {n}\n")
    print(f"locked {len(keep)} obligations for {prop}")
    return 0


def write_evidence(prop, tier, seed, R, funcs, groups, lock, bounded, violations, known_hits, undecided_fns, solve_s, wall, src, selftest=None):
    manifest = json.load(open(os.path.join(HERE, "MANIFEST.json")))
    chk = next((c for c in manifest["checks"] if c["property_id"] == prop), None)
    level = chk["level_claimed"]["category"] if chk else "proof"
    req = sorted(lock)
    n_dis = sum(1 for n in req if n in groups and groups[n]["verdict"] == "discharged")
    assumptions = set()
    for r in funcs:
        assumptions |= set(r.assumptions)
    assumptions |= set(trusted_list(R, prop))
    assumptions |= {"int is mathematical; float and numpy float64 are mathematical reals (rounding, inf, nan not modelled)",
                    "the pyvc engine, z3 5.1 and cvc5 1.0.3 are sound; field/parameter sort declarations in contracts/common.py"}
    if bounded:
        assumptions |= set(bounded.get("assumptions", []))
    fn_rows = []
    for r in funcs:
        fn_rows.append({"function": r.key + (f"{{{r.scenario['name']}}}" if r.scenario else ""), "lines": list(r.span) if r.span else None,
                        "module_sha256": r.module_sha, "paths": r.paths, "obligations": len(r.obligations),
                        "heap_reads": sorted(r.reads), "heap_writes": sorted(r.writes),
                        "unrolled_loops": {str(k): v for k, v in r.unrolled.items()},
                        "callees_by_contract_or_external": r.calls, "abstracted_blocks": getattr(r, "abstracted", []),
                        "undecided": r.undecided_reason, "vcgen_s": round(r.seconds, 3)})
    ob_rows = [{"name": n, "verdict": g["verdict"], "required": n in lock, "paths": len(g["obs"]), "solver": g["solvers"],
                "seconds": g["seconds"], "clause": g["text"]} for n, g in sorted(groups.items())]
    cov = {
        "obligations": len(req),
        "discharged": n_dis,
        "checker_cmd": f"./check {prop} --tier {tier}",
        "trusted_base": sorted(assumptions),
        "functions_under_contract": fn_rows,
        "obligation_results": ob_rows,
        "obligations_generated": len(groups),
        "vacuity_covers": {"model_found": sorted(n for n, g in groups.items() if g["kind"] == "cover" and g["verdict"] == "discharged"),
                           "no_model_within_budget": sorted(n for n, g in groups.items() if g["kind"] == "cover" and g["verdict"] == "undecided"),
                           "contradictory": sorted(n for n, g in groups.items() if g["kind"] == "cover" and g["verdict"] == "refuted")},
        "obligations_not_required": sorted(n for n in groups if n not in lock),
        "solver_seconds": round(solve_s, 2),
        "back_ends": sorted({s for g in groups.values() for s in g["solvers"]}),
        "samples": [{"obligation": r["name"], "clause": r["clause"], "verdict": r["verdict"]} for r in ob_rows[:6]],
        "known_findings_reproduced": [h["key"] for h, _ in known_hits],
        "undecided_functions": [{"function": k, "reason": w} for k, w in undecided_fns],
    }
    if selftest is not None:
        cov["mutation_self_test"] = selftest
    if bounded:
        cov["bounded"] = {k: v for k, v in bounded.items() if k not in ("violations", "assumptions")}
        cov["evaluations"] = int(bounded.get("evaluations", 0))
        cov["distinct_nontrivial"] = int(bounded.get("distinct_nontrivial", 0))
        cov["rule"] = bounded.get("rule", "")
        cov["samples"] = (bounded.get("samples") or [])[:8] + cov["samples"][:4]
        cov["exhaustive"] = bool(bounded.get("exhaustive", False))
    ev = {"property_id": prop, "tier": tier, "seed": seed, "level": level, "coverage": cov,
          "assumptions": sorted(assumptions), "wall_s": round(wall, 2), "violations": len(violations)}
    with open(os.path.join(EVID, f"{prop}.json"), "w") as f:
        json.dump(ev, f, indent=1, default=str)


if __name__ == "__main__":
    sys.exit(main())
