"""Syntactic effect obligations (C10 / C18): frame conditions that are decided on the syntax tree of the real source, for every function of
the generation modules -- no solver involved (back end "syntactic").  Re-read from /repo on every run like everything else.

  effect[rng-threaded]       a function that has a generator in scope (its parameter `rng`, a captured `rng`, or `self.rng`) hands exactly that
                             generator to every callee that accepts one (a def anywhere in the package with a parameter named `rng`)
  effect[no-ambient-random]  no use of numpy's / python's global random state: `np.random.*` only as `np.random.default_rng()` in the module-level
                             `_GLOBAL_RNG = ...` or under `if <rng> is None:`; `_GLOBAL_RNG` itself only as a parameter default or under `if rng is None:`
  effect[no-module-state]    no `global` statement, no store to a module-level name, no in-place update of a class-level attribute
                             (`self.bond_descriptors` is assigned in __init__ of every class that updates it in place)
  effect[no-identity-order]  no id() / hash() and no iteration over a set: nothing that could make outputs depend on object addresses

What this does NOT show: that third-party calls (RDKit embedding, scipy) are deterministic given the generator -- coordinates are not, and no
contract mentions them.
"""
import ast
import os

from .engine import Obligation
from .frontend import REPO_SRC

MODULES = ["core", "bond", "token", "stochastic", "molecule", "mixture", "system", "mol_gen", "distribution", "graph_generate", "stochastic_atom_graph"]
STATE_EXEMPT = {"forcefield_helper"}       # its cache is under contract (C20)


def _functions(tree):
    """(qualname, FunctionDef, enclosing function chain, class name)"""
    out = []

    def walk(node, prefix, chain, cls):
        for ch in ast.iter_child_nodes(node):
            if isinstance(ch, ast.ClassDef):
                walk(ch, prefix + [ch.name], chain, ch.name)
            elif isinstance(ch, (ast.FunctionDef, ast.AsyncFunctionDef)):
                out.append((".".join(prefix + [ch.name]), ch, list(chain), cls))
                walk(ch, prefix + [ch.name], chain + [ch], cls)
            else:
                walk(ch, prefix, chain, cls)
    walk(tree, [], [], None)
    return out


def _own_nodes(fn):
    """nodes of fn's body that are not inside a nested def / class"""
    stack = [x for x in fn.body if not isinstance(x, (ast.FunctionDef, ast.AsyncFunctionDef, ast.ClassDef))]
    while stack:
        n = stack.pop()
        yield n
        for ch in ast.iter_child_nodes(n):
            if isinstance(ch, (ast.FunctionDef, ast.AsyncFunctionDef, ast.ClassDef)):
                continue
            stack.append(ch)


def _params(fn):
    a = fn.args
    return [x.arg for x in a.posonlyargs + a.args + a.kwonlyargs]


def _is_rng_expr(e):
    return (isinstance(e, ast.Name) and e.id == "rng") or (isinstance(e, ast.Attribute) and e.attr == "rng" and isinstance(e.value, ast.Name) and e.value.id == "self")


def _under_none_test(fn):
    """ids of nodes that sit under `if rng is None:` / `if self.rng is None:`"""
    ok = set()
    for n in ast.walk(fn):
        if isinstance(n, ast.If) and isinstance(n.test, ast.Compare) and len(n.test.ops) == 1 and isinstance(n.test.ops[0], ast.Is) \
                and _is_rng_expr(n.test.left) and isinstance(n.test.comparators[0], ast.Constant) and n.test.comparators[0].value is None:
            for s in n.body:
                for x in ast.walk(s):
                    ok.add(id(x))
    return ok


def effect_obligations(root=None):
    root = root or os.environ.get("VERIF_REPO_SRC", REPO_SRC)
    trees = {}
    for m in MODULES:
        path = os.path.join(root, m + ".py")
        if os.path.exists(path):
            trees[m] = ast.parse(open(path).read())
    # callees that accept a generator: name -> position of `rng` among the parameters (methods: without self)
    accepts = {}
    for m, t in trees.items():
        for q, fn, chain, cls in _functions(t):
            ps = _params(fn)
            if "rng" in ps:
                pos = ps.index("rng") - (1 if ps and ps[0] == "self" else 0)
                accepts.setdefault(fn.name if fn.name != "__init__" else (cls or fn.name), set()).add(pos)
    obs = []

    def ob(mod, q, rule, problems, text):
        o = Obligation(f"effects.{mod}.{q}/effect[{rule}]", [], None, "effect", f"effects.{mod}.{q}", None, ["C10"], text)
        o.verdict = "refuted" if problems else "discharged"
        o.solver, o.seconds = "syntactic", 0.0
        o.detail = "; ".join(problems)
        o.model = "; ".join(problems) if problems else None
        obs.append(o)

    for m, t in trees.items():
        module_names = {x.id for s in t.body if isinstance(s, ast.Assign) for x in s.targets if isinstance(x, ast.Name)}
        init_assigns_bd = {}
        for q, fn, chain, cls in _functions(t):
            if fn.name == "__init__" and cls:
                init_assigns_bd[cls] = any(isinstance(n, ast.Assign) and any(isinstance(x, ast.Attribute) and x.attr == "bond_descriptors" and isinstance(x.value, ast.Name)
                                                                               and x.value.id == "self" for x in n.targets) for n in ast.walk(fn))
        # class-level mutable containers ( `cache = {}` in a class body ): one object shared by every instance
        class_mutables = {}
        for c_ in ast.walk(t):
            if isinstance(c_, ast.ClassDef):
                for s_ in c_.body:
                    tg = s_.targets if isinstance(s_, ast.Assign) else ([s_.target] if isinstance(s_, ast.AnnAssign) and s_.value is not None else [])
                    v_ = getattr(s_, "value", None)
                    if tg and (isinstance(v_, (ast.Dict, ast.List, ast.Set, ast.ListComp, ast.DictComp, ast.SetComp))
                               or (isinstance(v_, ast.Call) and isinstance(v_.func, ast.Name) and v_.func.id in ("dict", "list", "set", "defaultdict", "OrderedDict", "deque"))):
                        for x in tg:
                            if isinstance(x, ast.Name):
                                class_mutables.setdefault(c_.name, set()).add(x.id)
        init_assigns = {}
        for q, fn, chain, cls in _functions(t):
            if fn.name == "__init__" and cls:
                init_assigns[cls] = {x.attr for n in ast.walk(fn) if isinstance(n, (ast.Assign, ast.AnnAssign))
                                     for x in (n.targets if isinstance(n, ast.Assign) else [n.target])
                                     if isinstance(x, ast.Attribute) and isinstance(x.value, ast.Name) and x.value.id == "self"}
        for q, fn, chain, cls in _functions(t):
            has_rng = "rng" in _params(fn) or any("rng" in _params(c) for c in chain) \
                or any(isinstance(n, ast.Attribute) and n.attr == "rng" and isinstance(n.value, ast.Name) and n.value.id == "self" for n in _own_nodes(fn))
            none_ok = _under_none_test(fn)
            p_rng, p_amb, p_state, p_id = [], [], [], []
            if "dot" in fn.name:
                continue        # graph export to dot text: not part of generation (hash() there only picks colours)
            inner_attr = {id(n.value) for n in _own_nodes(fn) if isinstance(n, ast.Attribute) and isinstance(n.value, ast.Attribute)}
            for n in _own_nodes(fn):
                if isinstance(n, ast.Call):
                    f = n.func
                    name = f.attr if isinstance(f, ast.Attribute) else (f.id if isinstance(f, ast.Name) else None)
                    is_super_generate = False
                    if name in accepts and has_rng and not (isinstance(f, ast.Attribute) and isinstance(f.value, ast.Name) and f.value.id in ("np", "nx", "Chem")):
                        passed = [a for a in n.args if _is_rng_expr(a)] + [k for k in n.keywords if k.arg in ("rng", "random_state") and _is_rng_expr(k.value)]
                        if not passed:
                            p_rng.append(f"line {n.lineno}: call of {name}(...) does not pass the generator in scope")
                    if name == "rvs":
                        rs = [k for k in n.keywords if k.arg == "random_state"]
                        if not rs or not _is_rng_expr(rs[0].value):
                            p_rng.append(f"line {n.lineno}: rvs(...) without random_state=<the generator in scope>")
                    if name in ("id", "hash") and isinstance(f, ast.Name):
                        p_id.append(f"line {n.lineno}: {name}() of an object")
                if isinstance(n, ast.Attribute) and id(n) not in inner_attr:
                    d = []
                    x = n
                    while isinstance(x, ast.Attribute):
                        d.append(x.attr)
                        x = x.value
                    if isinstance(x, ast.Name):
                        d.append(x.id)
                    dotted = ".".join(reversed(d))
                    if dotted.startswith("np.random") or dotted.startswith("numpy.random") or dotted.startswith("random."):
                        if not (dotted == "np.random.default_rng" and id(n) in none_ok):
                            p_amb.append(f"line {n.lineno}: {dotted} (ambient random state)")
                if isinstance(n, ast.Name) and n.id == "_GLOBAL_RNG" and id(n) not in none_ok:
                    p_amb.append(f"line {n.lineno}: the library's global generator is used although a generator parameter exists")
                if isinstance(n, ast.Global) and m not in STATE_EXEMPT:
                    p_state.append(f"line {n.lineno}: global {', '.join(n.names)}")
                if isinstance(n, (ast.For, ast.comprehension)):
                    it = n.iter
                    if isinstance(it, (ast.Set, ast.SetComp)) or (isinstance(it, ast.Call) and isinstance(it.func, ast.Name) and it.func.id in ("set", "frozenset")):
                        p_id.append(f"line {getattr(n, 'lineno', getattr(it, 'lineno', 0))}: iteration over a set")
                if isinstance(n, ast.AugAssign) or (isinstance(n, ast.Call) and isinstance(n.func, ast.Attribute) and n.func.attr in ("append", "extend", "insert", "pop", "remove", "clear")):
                    tgt = n.target if isinstance(n, ast.AugAssign) else n.func.value
                    if isinstance(tgt, ast.Attribute) and tgt.attr == "bond_descriptors" and isinstance(tgt.value, ast.Name) and tgt.value.id == "self":
                        if cls and not init_assigns_bd.get(cls, False):
                            p_state.append(f"line {n.lineno}: in-place update of self.bond_descriptors in class {cls}, whose __init__ does not assign it "
                                           "(the class-level list of BigSMILESbase would be shared)")
                # in-place update of a mutable container that lives in the class body (reached through self / cls / the class name) and is not
                # replaced by an instance attribute in __init__: state shared by all objects of the class, i.e. module state
                if cls and class_mutables.get(cls):
                    tgt = None
                    if isinstance(n, (ast.Assign, ast.AugAssign, ast.Delete)):
                        for x in (n.targets if isinstance(n, (ast.Assign, ast.Delete)) else [n.target]):
                            if isinstance(x, ast.Subscript):
                                tgt = x.value
                            elif isinstance(n, ast.AugAssign):
                                tgt = x
                    elif isinstance(n, ast.Call) and isinstance(n.func, ast.Attribute) and n.func.attr in (
                            "append", "extend", "insert", "pop", "remove", "clear", "update", "setdefault", "add", "discard", "popitem", "appendleft", "sort", "reverse"):
                        tgt = n.func.value
                    if isinstance(tgt, ast.Attribute) and isinstance(tgt.value, ast.Name) and tgt.value.id in ("self", "cls", cls) \
                            and tgt.attr in class_mutables[cls] and tgt.attr not in init_assigns.get(cls, set()) and tgt.attr != "bond_descriptors":
                        p_state.append(f"line {n.lineno}: in-place update of {cls}.{tgt.attr}, a container created in the class body (shared by every {cls} object)")
            # defaults: `rng=_GLOBAL_RNG` is allowed (documented default); any other use was flagged above. Names in defaults are not in _own_nodes.
            ob(m, q, "rng-threaded", p_rng, "every callee that accepts a generator receives the generator in scope")
            ob(m, q, "no-ambient-random", p_amb, "no use of numpy's / python's global random state, the library's global generator only as the documented default")
            ob(m, q, "no-module-state", p_state, "no global statement, no in-place update of a class-level attribute")
            ob(m, q, "no-identity-order", p_id, "no id() / hash() / iteration over a set")
    # C04: in direct generation, bonds are created at exactly one site -- MolGen.attach_other (whose contract carries the property); the atom-graph route
    # (graph_generate.AtomGraph.to_mol, stochastic_atom_graph._remove_extra_hydrogen_atoms) belongs to C17 / C18
    sites = []
    for m, t in trees.items():
        for q, fn, chain, cls in _functions(t):
            for n in _own_nodes(fn):
                if isinstance(n, ast.Attribute) and n.attr in ("AddBond", "EditableMol", "RWMol", "RemoveBond", "RemoveAtom", "ReplaceAtom"):
                    sites.append((m, q, n.attr, n.lineno))
    bad = [f"{m}.{q} line {ln}: {a}" for m, q, a, ln in sites if not ((m == "mol_gen" and q == "MolGen.attach_other") or m in ("graph_generate", "stochastic_atom_graph"))]
    o = Obligation("effects.mol_gen/effect[bonds-are-made-only-in-attach_other]", [], None, "effect", "effects.mol_gen", None, ["C04"],
                   "RDKit molecule editing (EditableMol / AddBond / RWMol / Remove*) occurs in direct generation only inside MolGen.attach_other")
    o.verdict = "refuted" if bad or not any(m == "mol_gen" and q == "MolGen.attach_other" and a == "AddBond" for m, q, a, _ in sites) else "discharged"
    o.solver, o.seconds, o.detail = "syntactic", 0.0, "; ".join(bad)
    o.model = o.detail or None
    obs.append(o)
    return obs
