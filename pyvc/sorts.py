"""Sorts of the pyvc verification-condition generator.

A sort is a small tuple; a symbolic value is V(sort, term).  The z3 term behind each sort:

  INT   -> Int          REAL -> Real        BOOL -> Bool        STR -> String
  Ref   -> Int (object id, 0 is None)       List -> Int (list object id, 0 is None)
  Enum, Opaque -> Int
  Opt(x), IDS  -> python pair (is_none: Bool, value)      (IDS: '' | int ; is_none means '')
  Tuple        -> python tuple of V
  PY           -> a concrete python object (int, float, str, bool, None, range, module marker ...)
"""

INT = ("int",)
REAL = ("real",)
BOOL = ("bool",)
STR = ("str",)
NONE = ("none",)
IDS = ("ids",)
PY = ("py",)


def Ref(cls, null=False):
    return ("ref", cls, bool(null))


def NRef(cls):
    return ("ref", cls, True)


def List(elem, null=False):
    return ("list", elem, bool(null))


def NList(elem):
    return ("list", elem, True)


def Dict(key, val):
    """a python dict with keys of sort key (STR or an Int-like sort) and values of sort val; term: Int (object id)"""
    return ("dict", key, val)


def Opt(inner):
    return ("opt", inner)


def Enum(name):
    return ("enum", name)


def Opaque(name, null=False):
    return ("opq", name, bool(null))


def StrEnum(name, *values):
    """a string field whose value is always one of finitely many constants (term: Int code = position in values)"""
    return ("senum", name, tuple(values))


def Tuple(*sorts):
    return ("tuple", tuple(sorts))


def is_ref(s):
    return s[0] == "ref"


def is_list(s):
    return s[0] == "list"


def is_intlike(s):
    """sorts whose z3 term is an Int"""
    return s[0] in ("int", "ref", "list", "enum", "opq", "senum", "dict")


def nullable(s):
    return s[0] in ("ref", "list", "opq") and s[2]


def classes_of(s):
    assert s[0] == "ref"
    return s[1].split("|")


def show(s):
    if s[0] in ("ref", "opq"):
        return f"{s[0]}:{s[1]}{'?' if s[2] else ''}"
    if s[0] == "list":
        return f"list[{show(s[1])}]{'?' if s[2] else ''}"
    if s[0] == "opt":
        return f"opt[{show(s[1])}]"
    if s[0] == "tuple":
        return "(" + ",".join(show(x) for x in s[1]) + ")"
    if s[0] in ("enum", "senum"):
        return f"enum:{s[1]}"
    return s[0]
