"""Assumed contracts of scipy.stats as used by distribution.py (DESIGN 2.6, trusted base).

A scipy distribution object is a VALUE of the uninterpreted sort ScipyDist.  What is assumed:

  stats.norm(loc, scale)     is the normal law with mean loc and standard deviation scale          -> family NORM,    (p1, p2) = (loc, scale)
  stats.uniform(loc, scale)  is the uniform law on [loc, loc + scale]                               -> family UNIFORM, (p1, p2) = (loc, loc + scale)
  stats.poisson(mu)          is the Poisson law with mean mu                                        -> family POISSON, (p1, p2) = (mu, 0)
  an instance of a custom rv_discrete / rv_continuous subclass is the law whose _pmf / _pdf the subclass defines, with the
  shape parameters handed over BY KEYWORD at each call                                               -> families FS (a), SZ (z, Mn), LN (M, D)
  d.rvs(random_state=g, **shape) returns one sample of that law using only the generator g (ghost: draws, last_draw, last_draw_rng,
  last_draw_family, last_draw_p1, last_draw_p2);  d.cdf / d.pdf / d.pmf (x, **shape) are uninterpreted functions of (family, p1, p2, x).
  Shape keywords that do not belong to the object's family raise TypeError (scipy does).
"""
import z3

from . import registry as R
from .engine import V, VNONE, Unsupported, _fresh, fresh, lift, py, to_real
from .registry import external
from .sorts import BOOL, INT, NONE, PY, REAL, STR, Opaque
from .specs import UFUNCS, ufunc

SD = Opaque("ScipyDist", True)
FAM = dict(NORM=1, UNIFORM=2, POISSON=3, FS=4, SZ=5, LN=6)
R.enum("LAW", **FAM)

ufunc("law_family", [Opaque("ScipyDist")], INT)
ufunc("law_p1", [Opaque("ScipyDist")], REAL)
ufunc("law_p2", [Opaque("ScipyDist")], REAL)
ufunc("cdf_at", [INT, REAL, REAL, REAL], REAL)
ufunc("pdf_at", [INT, REAL, REAL, REAL], REAL)
ufunc("pmf_at", [INT, REAL, REAL, REAL], REAL)
for _n in ("rexp", "rlog", "rsqrt", "rgamma"):
    ufunc(_n, [REAL], REAL)

GLOBAL_RNG = z3.Int("GLOBAL_RNG")      # the library's module-level generator object (core._GLOBAL_RNG)
R.NAME_CONSTS["_GLOBAL_RNG"] = V(Opaque("Generator"), GLOBAL_RNG)
R.NAME_CONSTS["np.pi"] = V(REAL, z3.Real("PI"))
R.NAME_CONSTS["np_pi"] = R.NAME_CONSTS["np.pi"]
R.NAME_CONSTS["np.inf"] = V(REAL, z3.Real("INFINITY"))


def uf(n):
    return UFUNCS[n][2]


def _frozen(eng, st, fam, p1, p2, what):
    d = fresh("dist", z3.IntSort())
    st.assume(d >= 1)
    st.assume(uf("law_family")(d) == FAM[fam])
    st.assume(uf("law_p1")(d) == p1)
    st.assume(uf("law_p2")(d) == p2)
    eng.assumption_log.add(what)
    return V(Opaque("ScipyDist"), d)


def _kw(kw, a, names):
    vals = list(a)
    for n in names[len(a):]:
        if n not in kw:
            raise Unsupported(f"scipy call without {n}")
        vals.append(kw[n])
    return [to_real(lift(v)) for v in vals]


@external("stats.norm")
def stats_norm(eng, st, node, a, kw, k, ctx):
    loc, scale = _kw(kw, a, ["loc", "scale"])
    return k(st, _frozen(eng, st, "NORM", loc, scale, "scipy.stats.norm(loc, scale) is the normal law with mean loc and standard deviation scale (trusted)"))


@external("stats.uniform")
def stats_uniform(eng, st, node, a, kw, k, ctx):
    loc, scale = _kw(kw, a, ["loc", "scale"])
    return k(st, _frozen(eng, st, "UNIFORM", loc, loc + scale, "scipy.stats.uniform(loc, scale) is the uniform law on [loc, loc + scale] (trusted)"))


@external("stats.poisson")
def stats_poisson(eng, st, node, a, kw, k, ctx):
    (mu,) = _kw(kw, a, ["mu"])
    return k(st, _frozen(eng, st, "POISSON", mu, z3.RealVal(0), "scipy.stats.poisson(mu) is the Poisson law with mean mu (trusted)"))


def _custom(fam):
    def h(eng, st, node, a, kw, k, ctx):
        d = fresh("dist", z3.IntSort())
        st.assume(d >= 1)
        st.assume(uf("law_family")(d) == FAM[fam])
        eng.assumption_log.add("an instance of a custom scipy rv subclass is the law its _pmf / _pdf defines, shape parameters by keyword (trusted)")
        return k(st, V(Opaque("ScipyDist"), d))
    return h


external("FlorySchulz.flory_schulz_gen")(_custom("FS"))
external("SchulzZimm.schulz_zimm_gen")(_custom("SZ"))
external("LogNormal.log_normal_gen")(_custom("LN"))

SHAPES = {(): None, ("a",): "FS", ("Mn", "z"): "SZ", ("D", "M"): "LN"}
ORDER = {"FS": ("a",), "SZ": ("z", "Mn"), "LN": ("M", "D")}


def _law_of_call(eng, st, d, kw, node, ctx, drop=("random_state",)):
    """(family term, p1, p2) of a call on distribution object d with shape keywords kw; forks off None receiver / wrong keywords"""
    if d.s[0] != "opq":
        raise Unsupported(f"scipy method on {d}")
    if d.s[2]:
        sn = st.fork()
        sn.assume(d.t == 0)
        if eng.feasible(sn):
            eng.throw(sn, "AttributeError", node, ctx)
        st.assume(d.t != 0)
    names = tuple(sorted(n for n in kw if n not in drop))
    if names not in SHAPES:
        raise Unsupported(f"scipy call with keywords {names}")
    fam_t = uf("law_family")(d.t)
    want = SHAPES[names]
    if want is None:
        frozen = z3.Or([fam_t == FAM[f] for f in ("NORM", "UNIFORM", "POISSON")])
        sb = st.fork()
        sb.assume(z3.Not(frozen))
        if eng.feasible(sb):
            eng.throw(sb, "TypeError", node, ctx)     # missing shape parameters
        st.assume(frozen)
        return fam_t, uf("law_p1")(d.t), uf("law_p2")(d.t)
    sb = st.fork()
    sb.assume(fam_t != FAM[want])
    if eng.feasible(sb):
        eng.throw(sb, "TypeError", node, ctx)         # unexpected keyword for this law
    st.assume(fam_t == FAM[want])
    vals = [to_real(lift(kw[n])) for n in ORDER[want]]
    return fam_t, vals[0], (vals[1] if len(vals) > 1 else z3.RealVal(0))


@external("ScipyDist.rvs")
def dist_rvs(eng, st, node, a, kw, k, ctx):
    d = a[0]
    fam, p1, p2 = _law_of_call(eng, st, d, kw, node, ctx)
    rng = kw.get("random_state")
    if rng is None:
        raise Unsupported("rvs without random_state (numpy's global state)")
    if rng.s[0] != "opq":
        raise Unsupported(f"random_state={rng}")
    # scipy's generic inverse search can fail (the library's flory_schulz finding): RuntimeError is a possible outcome
    sb = st.fork()
    okv = fresh("rvs_ok", z3.BoolSort())
    sb.assume(z3.Not(okv))
    eng.throw(sb, "RuntimeError", node, ctx)
    st.assume(okv)
    r = fresh("draw", z3.RealSort())
    G = Opaque("Generator")
    for g in ("draws", "last_draw", "last_draw_rng", "last_draw_family", "last_draw_p1", "last_draw_p2"):
        eng.ghost_get(st, "ghost." + g, R.GHOSTS[g])
        st.wlog.append("ghost." + g)
    st.ghost["ghost.draws"] = V(INT, st.ghost["ghost.draws"].t + 1)
    st.ghost["ghost.last_draw"] = V(REAL, r)
    st.ghost["ghost.last_draw_rng"] = V(G, rng.t)
    st.ghost["ghost.last_draw_family"] = V(INT, fam)
    st.ghost["ghost.last_draw_p1"] = V(REAL, p1)
    st.ghost["ghost.last_draw_p2"] = V(REAL, p2)
    eng.assumption_log.add("scipy rvs(random_state=g, **shape) returns one sample of the law of the object it is called on, using only g; it may raise RuntimeError (trusted)")
    return k(st, V(REAL, r))


def _fn_at(which):
    def h(eng, st, node, a, kw, k, ctx):
        d = a[0]
        fam, p1, p2 = _law_of_call(eng, st, d, kw, node, ctx)
        if len(a) != 2:
            raise Unsupported(f"{which} arguments")
        # rv_discrete objects have no pdf, rv_continuous objects no pmf (AttributeError) -- Poisson.prob_mw relies on it
        discrete = z3.Or([fam == FAM[f] for f in ("POISSON", "FS", "SZ")])
        missing = {"pdf": discrete, "pmf": z3.Not(discrete)}.get(which)
        if missing is not None:
            sm = st.fork()
            sm.assume(missing)
            if eng.feasible(sm):
                eng.throw(sm, "AttributeError", node, ctx)
            st.assume(z3.Not(missing))
        x = a[1]
        if x.s[0] in ("ref", "list", "opt", "none"):
            # a non-number reaches scipy: TypeError there
            return eng.throw(st, "TypeError", node, ctx)
        return k(st, V(REAL, uf(which + "_at")(fam, p1, p2, to_real(lift(x)))))
    return h


external("ScipyDist.cdf")(_fn_at("cdf"))
external("ScipyDist.pdf")(_fn_at("pdf"))
external("ScipyDist.pmf")(_fn_at("pmf"))


def _real_fn(name):
    def h(eng, st, node, a, kw, k, ctx):
        return k(st, V(REAL, uf(name)(to_real(lift(a[0])))))
    return h


external("np.exp")(_real_fn("rexp"))
external("np.log")(_real_fn("rlog"))
external("np.sqrt")(_real_fn("rsqrt"))
external("special.gamma")(_real_fn("rgamma"))
