"""pyvc - contract-based verification-condition generator for the G-BigSMILES sources (see /verif/DESIGN.md section 2)."""
