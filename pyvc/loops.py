"""Loops: cut at a contract-supplied invariant (unbounded), or unrolled when the iteration space is concrete
or the contract states an unrolling bound (reported as P<=n, with an unwinding assertion)."""
import ast

import z3

from . import registry as R
from .engine import (ALL_GEN, GEN, GROUPS, null_guard, V, VNONE, Unsupported, _fresh, fresh, fresh_value, lift, py)
from .sorts import BOOL, INT, PY, REAL, STR, List


def loop_ordinal(eng, node):
    return eng.loop_ids[id(node)]


def assigned_names(stmts):
    out = set()
    for s in stmts:
        for n in ast.walk(s):
            if isinstance(n, ast.Name) and isinstance(n.ctx, (ast.Store, ast.Del)):
                out.add(n.id)
            if isinstance(n, ast.FunctionDef):
                out.add(n.name)
    return out


def havoc_locals(eng, st, names):
    for n in names:
        if n in st.env:
            v = st.env[n]
            if v.s in (PY,):
                lv = lift(v) if v.t is not None else None
                if lv is None:
                    raise Unsupported(f"loop modifies {n} which is None before the loop: declare its sort in loop 'locals'")
                v = lv
            if v.s[0] in ("func", "name", "bound", "range", "enumerate", "lambda", "exc"):
                continue
            if v.s[0] == "tuple":
                raise Unsupported(f"loop-modified tuple local {n}")
            nv = fresh_value("lp!" + n, v.s)
            st.env[n] = nv
            eng.typing_facts(st, nv)


def loop_contract(eng, node):
    n = loop_ordinal(eng, node)
    lc = eng.contract.loops.get(n)
    header = ast.unparse(node.test) if isinstance(node, ast.While) else f"{ast.unparse(node.target)} in {ast.unparse(node.iter)}"
    import re as _re
    norm = lambda t: _re.sub(r"<=|>=|==|!=|<|>", "<cmp>", t)
    # the anchor identifies the loop the invariant was written for; a changed comparison operator is still the same loop
    # (its obligations then decide), anything else is a refactoring: contract out of date
    if lc is not None and lc.get("anchor") is not None and norm(lc["anchor"]) != norm(header):
        raise Unsupported(f"loop {n} header is {header!r}, contract was written for {lc['anchor']!r} (contract out of date)")
    return n, lc, header


def check_invs(eng, st, lc, n, kind, node, extra=None):
    from .specs import SpecEval
    for i, inv in enumerate(lc.get("inv", [])):
        se = SpecEval(eng, st, pre_state=st.old, extra=extra)
        g = se.boolean(inv)
        eng.oblige(st, g, kind, f"loop{n}:{lc.get('labels', {}).get(inv, i)}", node, text=inv)


def assume_invs(eng, st, lc, extra=None):
    from .specs import SpecEval
    for i_v, inv in enumerate(lc.get("inv", [])):
        se = SpecEval(eng, st, pre_state=st.old, extra=extra)
        st.assume(se.boolean(inv), tag=f"inv:{lc.get('labels', {}).get(inv, i_v)}")


def loop_mods(eng, lc, body):
    """heap arrays a loop body may write: syntactic attribute stores + contract-declared extras"""
    mods = set(lc.get("modifies", []))
    for s in body:
        for n in ast.walk(s):
            if isinstance(n, (ast.Assign, ast.AugAssign)):
                tgts = n.targets if isinstance(n, ast.Assign) else [n.target]
                for t in tgts:
                    if isinstance(t, ast.Attribute):
                        for cname, c in R.CLASSES.items():
                            if t.attr in c["fields"]:
                                mods.add(f"{cname}.{t.attr}")
                    if isinstance(t, ast.Subscript):
                        # d[k] = v : a dict when the container is a field declared with a dict sort, a list otherwise
                        tv = t.value
                        is_dict = isinstance(tv, ast.Attribute) and any(c["fields"].get(tv.attr, ("",))[0] == "dict" for c in R.CLASSES.values())
                        mods.add("dict" if is_dict else "list")
            if isinstance(n, ast.Delete):
                mods.add("list")
            if isinstance(n, ast.Call) and isinstance(n.func, ast.Attribute) and n.func.attr in (
                    "append", "pop", "clear", "extend", "insert", "remove", "sort", "reverse"):
                mods.add("list")
    # a contract that names the objects ("Class.f@expr", "list@expr") replaces the syntactic whole-array entry for that base
    gran_bases = {m.split("@", 1)[0] for m in mods if "@" in m}
    for gb in list(gran_bases):
        if gb not in GROUPS:
            cname, fname = gb.split(".", 1)
            for cn, c in R.CLASSES.items():
                if fname in c["fields"]:
                    gran_bases.add(f"{cn}.{fname}")
    mods = {m for m in mods if "@" in m or m not in gran_bases}
    return eng.expand_modifies(sorted(mods))


def cut_loop(eng, node, st, k, ctx, n, lc, guard_fn, pre_body, post_body, index_extra):
    """generic invariant cut.
    guard_fn(st, k_true, k_false): evaluate the loop guard.
    pre_body(st): bind loop variable(s) at the start of an iteration.
    post_body(st): advance the ghost index at the end of an iteration."""
    from .specs import SpecEval
    for nm, srt in lc.get("locals", {}).items():
        cur = st.env.get(nm)
        if cur is not None and cur.s[0] == "list" and cur.s[1] == ("unk",):
            st.env[nm] = V(srt, cur.t)      # empty literal list: element sort declared by the loop contract
        elif cur is not None and cur.s == PY and cur.t is None and srt[0] in ("ref", "list", "opq") and srt[2]:
            st.env[nm] = V(srt, z3.IntVal(0))      # None in a local of declared nullable reference sort
    outer_entry = st.loop_entry
    entry = st.fork()
    entry.loop_entry = outer_entry
    st.loop_entry = entry
    check_invs(eng, st, lc, n, "inv-entry", node, index_extra(st))
    body_names = assigned_names(node.body)
    for nm, srt in lc.get("locals", {}).items():
        cur = st.env.get(nm)
        if cur is not None and cur.s[0] == "list" and cur.s[1] == ("unk",):
            st.env[nm] = V(srt, cur.t)      # empty literal list: element sort declared by the loop contract
        elif cur is None or cur.s == PY:
            st.env[nm] = fresh_value("lp!" + nm, srt)
    mods = loop_mods(eng, lc, node.body)
    # object-granular entries ("Class.field@expr", "list@expr"): only that object's cell changes; expr is evaluated at loop entry
    gran = {}
    for m in list(mods):
        if "@" in m:
            base, expr = m.split("@", 1)
            gran.setdefault(base, []).append(ALL_GEN if expr.strip() == "GEN" else z3.simplify(null_guard(expr, st.env, lift(SpecEval(eng, st, pre_state=st.old).value(expr)).t)))
    mods = [m for m in mods if "@" not in m]
    alloc0 = st.heap.alloc
    eng.havoc_arrays(st, mods)
    gran_arrays = eng.granular_arrays(st, gran)
    modset = set()
    for m in mods:
        modset |= (set(GROUPS[m]) if m in GROUPS else {m, m + "#n"})
    if lc.get("allocates", True):
        # objects allocated by earlier iterations: every array may have changed on fresh objects only
        for nm in list(st.heap.arrs):
            if nm in modset:
                continue
            old = st.heap.arrs[nm]
            junk = fresh("lp!" + nm, old.sort())
            o = z3.Int(f"o!{next(_fresh)}")
            st.heap.arrs[nm] = z3.Lambda([o], z3.If(o <= alloc0, z3.Select(old, o), z3.Select(junk, o)))
        na = fresh("alloc", z3.IntSort())
        st.assume(na >= alloc0)
        from .engine import record_alloc
        record_alloc(na, alloc0)
        st.heap.alloc = na
    eng.apply_granular(st, gran_arrays, modset)
    for g in lc.get("ghost_modifies", []):
        eng.havoc_arrays(st, ["ghost." + g])
    stable = [n_ for n_ in lc.get("stable", []) if n_ in st.env]
    stable_vals = {n_: st.env[n_] for n_ in stable}
    havoc_locals(eng, st, [n_ for n_ in body_names if n_ not in stable])
    if lc.get("forget_callee_facts", False):
        # quantified facts assumed from callees BEFORE the loop relate states the loop has just replaced; dropping hypotheses is sound and
        # keeps the body's obligations small (the invariant has to carry what the body needs)
        from .engine import TAGS
        from .solve import has_quant

        def stale(h):
            t = TAGS.get(h.get_id())
            return t is not None and not t.startswith(("requires:", "inv:", "typing")) and has_quant(h, lambdas_count=False)
        st.pc = [h for h in st.pc if not stale(h)]
    index_havoc = lc.get("_index_havoc")
    if index_havoc:
        index_havoc(st)
    assume_invs(eng, st, lc, index_extra(st))
    variant0 = None
    if lc.get("decreases"):
        variant0 = SpecEval(eng, st, pre_state=st.old, extra=index_extra(st)).value(lc["decreases"])

    log0 = len(st.wlog)
    declared_names = set(mods) | set(gran) | {"ghost." + g for g in lc.get("ghost_modifies", [])}
    # object-granular entries promise that, among the objects that existed at loop entry, only the NAMED ones change: one iteration must keep every
    # other such cell (objects allocated by the loop itself are free).  Arrays as they are at the head of the iteration:
    head_arrs = {nm: st.heap.arrs[nm] for nm in gran_arrays if nm not in modset}
    head_owner = st.heap.arrs.get("obj.owner")

    def check_declared(s_end):
        for nm in s_end.wlog[log0:]:
            if nm not in declared_names:
                raise Unsupported(f"loop {n} writes {nm}, which its loop contract does not list under modifies")

    def iteration(s_it):
        pre_body(s_it)
        cv = eng.oblige(s_it, z3.BoolVal(False), "cover", f"loop{n}-body-reachable", node, text="invariant and guard are satisfiable together (vacuity guard)")
        cv.expect = "sat"

        def end_of_body(s_end):
            check_declared(s_end)
            for nm_g, head in head_arrs.items():
                cur = s_end.heap.arrs.get(nm_g)
                if cur is None or cur.eq(head):
                    continue
                o_g = z3.Int(f"o!{next(_fresh)}")
                own_h = head_owner if head_owner is not None else eng.arr(s_end, "obj.owner")
                others = z3.And([(z3.Select(own_h, o_g) != GEN) if t_.eq(ALL_GEN) else (o_g != z3.simplify(t_)) for t_ in gran_arrays[nm_g]] + [o_g >= 1, o_g <= alloc0])
                eng.oblige(s_end, z3.ForAll([o_g], z3.Implies(others, z3.Select(cur, o_g) == z3.Select(head, o_g))), "frame", f"loop{n}:{nm_g}", node,
                           text=f"one iteration changes {nm_g} only at the objects the loop contract names (and at objects the loop allocated)")
            post_body(s_end)
            for n_ in stable:
                # a local the contract declares stable is not havocked; the body must leave it with the value it had at loop entry
                eng.oblige(s_end, eng.equal(s_end, s_end.env[n_], stable_vals[n_]) if s_end.env[n_].s[0] not in ("ref", "list", "opq")
                           else s_end.env[n_].t == stable_vals[n_].t, "inv-step", f"loop{n}:stable-{n_}", node,
                           text=f"{n_} has the value it had at loop entry (declared stable)")
                s_end.env[n_] = stable_vals[n_]
            check_invs(eng, s_end, lc, n, "inv-step", node, index_extra(s_end))
            if variant0 is not None:
                v1 = SpecEval(eng, s_end, pre_state=s_end.old, extra=index_extra(s_end)).value(lc["decreases"])
                a, b = lift(variant0), lift(v1)
                from .engine import to_real
                eng.oblige(s_end, z3.And(to_real(b) < to_real(a), to_real(a) >= 0) if (a.s == REAL or b.s == REAL)
                           else z3.And(b.t < a.t, a.t >= 0), "variant", f"loop{n}", node, text=lc["decreases"])
            # path ends here: the rest of the function is verified from the invariant
            eng.paths += 1
        inner = ctx.replace(k_break=lambda s_b: after(s_b, True), k_continue=end_of_body)
        eng.exec_block(node.body, s_it, end_of_body, inner)

    def after(s_a, broke):
        s_a.loop_entry = entry.loop_entry
        if not broke and node.orelse:
            return eng.exec_block(node.orelse, s_a, k, ctx)
        return k(s_a)

    def k_true(s_t):
        if eng.feasible(s_t):
            iteration(s_t)

    def k_false(s_f):
        if eng.feasible(s_f):
            after(s_f, False)
    guard_fn(st, k_true, k_false)


def exec_while(eng, node, st, k, ctx):
    n, lc, header = loop_contract(eng, node)
    if lc is None or lc.get("unroll"):
        bound = (lc or {}).get("unroll", eng.contract.unroll.get(n))
        if bound is None:
            raise Unsupported(f"while loop {n} ({header}) has neither invariant nor unrolling bound")
        return unroll_while(eng, node, st, k, ctx, n, bound)

    def guard_fn(s, k_true, k_false):
        def f(s1, c):
            t = z3.simplify(eng.truth(s1, c))
            if z3.is_true(t):
                return k_true(s1)
            if z3.is_false(t):
                return k_false(s1)
            sa, sb = s1.fork(), s1.fork()
            sa.assume(t)
            sb.assume(z3.Not(t))
            k_true(sa)
            k_false(sb)
        return eng.ev(node.test, s, f, ctx)
    return cut_loop(eng, node, st, k, ctx, n, lc, guard_fn, lambda s: None, lambda s: None, lambda s: {})


def unroll_while(eng, node, st, k, ctx, n, bound):
    eng.unrolled[n] = bound

    def step(i, s):
        def f(s1, c):
            t = z3.simplify(eng.truth(s1, c))

            def body(sb):
                if i >= bound:
                    eng.oblige(sb, z3.BoolVal(False), "unwind", f"loop{n}<={bound}", node,
                               text=f"loop {n} needs more than {bound} iterations")
                    return
                inner = ctx.replace(k_break=lambda s_b: k(s_b), k_continue=lambda s_c: step(i + 1, s_c))
                return eng.exec_block(node.body, sb, lambda s2: step(i + 1, s2), inner)
            if z3.is_true(t):
                return body(s1)
            if z3.is_false(t):
                return k(s1)
            sa, sb = s1.fork(), s1.fork()
            sa.assume(t)
            sb.assume(z3.Not(t))
            if eng.feasible(sa):
                body(sa)
            if eng.feasible(sb):
                k(sb)
        return eng.ev(node.test, s, f, ctx)
    return step(0, st)


def bind_target(eng, tgt, v, st):
    if isinstance(tgt, ast.Name):
        st.env[tgt.id] = v
    elif isinstance(tgt, ast.Tuple) and v.s[0] == "tuple":
        for t, x in zip(tgt.elts, v.t):
            bind_target(eng, t, x, st)
    else:
        raise Unsupported("for target")


def exec_for(eng, node, st, k, ctx):
    n, lc, header = loop_contract(eng, node)

    def on_iter(s1, it):
        # normalise the iteration space to (count, element-at-index function)
        if it.s == ("range",):
            lo, hi = lift(it.t[0]), lift(it.t[1])
            count = z3.simplify(z3.If(hi.t > lo.t, hi.t - lo.t, z3.IntVal(0)))
            elem = lambda s, i: V(INT, z3.simplify(lo.t + i))
        elif it.s == ("enumerate",):
            lst = it.t
            if lst.s[0] != "list":
                raise Unsupported(f"enumerate over {lst}")
            count = z3.simplify(eng.list_len(s1, lst))
            elem = lambda s, i: V(("tuple", (INT, lst.s[1])), (V(INT, i), eng.list_get(s, lst, i)))
        elif it.s[0] == "list":
            count = z3.simplify(eng.list_len(s1, it))
            elem = lambda s, i: eng.list_get(s, it, i)
            if it.s[1] == ("unk",):
                # empty literal list
                count = z3.IntVal(0)
        elif it.s == STR:
            # iteration over a (symbolic) string: one character at a time
            count = z3.simplify(z3.Length(it.t))
            from .specs import UFUNCS, ufunc as _uf
            if "char_at" not in UFUNCS:
                _uf("char_at", [STR, INT], STR)

            def elem(s, i):
                c = z3.SubString(it.t, i, 1)
                s.assume(c == UFUNCS["char_at"][2](it.t, i))       # the i-th character, also available to contracts as char_at(text, i)
                return V(STR, c)
        elif it.s == PY and isinstance(it.t, (tuple, list, str)):
            count = z3.IntVal(len(it.t))
            elem = lambda s, i: py(it.t[z3.simplify(i).as_long()])
        elif it.s[0] == "tuple":
            count = z3.IntVal(len(it.t))
            elem = lambda s, i: it.t[z3.simplify(i).as_long()]
        else:
            raise Unsupported(f"for over {it}")
        if z3.is_int_value(count) and (lc is None or lc.get("unroll_concrete", True)):
            return unroll_for(eng, node, s1, k, ctx, n, count.as_long(), elem)
        if lc is None:
            bound = eng.contract.unroll.get(n)
            if bound is None:
                raise Unsupported(f"for loop {n} ({header}) over a symbolic range has no invariant")
            return unroll_for_sym(eng, node, s1, k, ctx, n, bound, count, elem)
        idx_name = lc.get("idx", f"_i{n}")
        # note: iteration over a list that the body itself mutates is not modelled
        if it.s[0] == "list":
            s1.env[f"_it{n}"] = it          # the iterated list (may be an anonymous expression): invariants may name it

        def run_cut(s_c, start):
            s_c.env[idx_name] = py(start)

            def index_havoc(s):
                i = fresh("lp!" + idx_name, z3.IntSort())
                s.env[idx_name] = V(INT, i)
                s.assume(i >= start)
                s.assume(i <= count)
            lc2 = dict(lc)
            lc2["_index_havoc"] = index_havoc

            # the iteration space itself is read before the loop: count is fixed
            def guard_fn(s, k_true, k_false):
                i = lift(s.env[idx_name]).t
                sa, sb = s.fork(), s.fork()
                sa.assume(i < count)
                sb.assume(i >= count)
                k_true(sa)
                k_false(sb)

            def pre_body(s):
                bind_target(eng, node.target, elem(s, lift(s.env[idx_name]).t), s)

            def post_body(s):
                s.env[idx_name] = V(INT, lift(s.env[idx_name]).t + 1)
            return cut_loop(eng, node, s_c, k, ctx, n, lc2, guard_fn, pre_body, post_body, lambda s: {})

        if lc.get("peel"):
            # first iteration executed on its own (P: the loop is cut from the second iteration on); break / continue inside it are not supported
            s_empty, s_first = s1.fork(), s1
            s_empty.assume(count <= 0)
            if eng.feasible(s_empty):
                if node.orelse:
                    eng.exec_block(node.orelse, s_empty, k, ctx)
                else:
                    k(s_empty)
            s_first.assume(count > 0)
            if not eng.feasible(s_first):
                return
            s_first.env[idx_name] = py(0)
            bind_target(eng, node.target, elem(s_first, z3.IntVal(0)), s_first)

            def no_jump(_s):
                raise Unsupported("break / continue in a peeled first iteration")
            inner = ctx.replace(k_break=no_jump, k_continue=no_jump)
            return eng.exec_block(node.body, s_first, lambda s2: run_cut(s2, 1), inner)
        return run_cut(s1, 0)
    return eng.ev(node.iter, st, on_iter, ctx)


def unroll_for(eng, node, st, k, ctx, n, count, elem):
    def step(i, s):
        if i >= count:
            if node.orelse:
                return eng.exec_block(node.orelse, s, k, ctx)
            return k(s)
        bind_target(eng, node.target, elem(s, z3.IntVal(i)), s)
        inner = ctx.replace(k_break=lambda s_b: k(s_b), k_continue=lambda s_c: step(i + 1, s_c))
        return eng.exec_block(node.body, s, lambda s2: step(i + 1, s2), inner)
    return step(0, st)


def unroll_for_sym(eng, node, st, k, ctx, n, bound, count, elem):
    eng.unrolled[n] = bound

    def step(i, s):
        sa, sb = s.fork(), s.fork()
        sb.assume(count <= i)
        if eng.feasible(sb):
            if node.orelse:
                eng.exec_block(node.orelse, sb, k, ctx)
            else:
                k(sb)
        sa.assume(count > i)
        if not eng.feasible(sa):
            return
        if i >= bound:
            eng.oblige(sa, z3.BoolVal(False), "unwind", f"loop{n}<={bound}", node, text=f"loop {n} needs more than {bound} iterations")
            return
        bind_target(eng, node.target, elem(sa, z3.IntVal(i)), sa)
        inner = ctx.replace(k_break=lambda s_b: k(s_b), k_continue=lambda s_c: step(i + 1, s_c))
        return eng.exec_block(node.body, sa, lambda s2: step(i + 1, s2), inner)
    return step(0, st)
