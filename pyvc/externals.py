"""Assumed contracts of builtins and third-party functions (the trusted base, DESIGN section 2.6), written as handlers.

handler(eng, st, node, args, kwargs, k, ctx) continues with k(st, value) on each normal outcome and
uses eng.throw for exceptional ones.  Every handler that embodies an assumption records it in eng.assumption_log.
"""
import z3

from . import registry as R
from .engine import (GEN, V, VNONE, Unsupported, _fresh, fresh, fresh_value, is_num, lift, py, to_real, z3sort)
from .registry import external
from .sorts import BOOL, INT, NONE, PY, REAL, STR, List, Opaque, Ref, is_intlike
from .specs import ufunc


def NpList(elem, null=False):
    return ("list", elem, bool(null), "np")


def is_np(s):
    return s[0] == "list" and len(s) > 3 and s[3] == "np"


def retype(st, v, new_sort):
    """an empty list literal gets its element sort at the first append"""
    nv = V(new_sort, v.t)
    for n, x in list(st.env.items()):
        if x is v:
            st.env[n] = nv
    return nv


def elem_default(es):
    return z3.RealVal(0) if es == REAL else (z3.StringVal("") if es == STR else z3.IntVal(0))


def elem_array_sort(es):
    return z3.ArraySort(z3.IntSort(), z3.RealSort() if es == REAL else (z3.StringSort() if es == STR else z3.IntSort()))


# ------------------------------------------------------------------ python lists
@external("list.append")
def list_append(eng, st, node, a, kw, k, ctx):
    lst, x = a
    x = lift(x) if x.s == PY else x
    if lst.s[1] == ("unk",):
        lst = retype(st, lst, ("list", x.s, lst.s[2]))
    xv = eng.coerce(x, lst.s[1])
    ln = eng.list_len(st, lst)
    el = eng.list_elems(st, lst)
    eng.set_list(st, lst, z3.simplify(ln + 1), z3.Store(el, ln, xv.t), node)
    return k(st, VNONE)


def _remove_at(eng, st, lst, idx, node):
    ln = eng.list_len(st, lst)
    el = eng.list_elems(st, lst)
    lnv = z3.simplify(ln)
    idxv = z3.simplify(idx)
    if z3.is_int_value(lnv) and z3.is_int_value(idxv):
        new = el
        for j in range(idxv.as_long(), lnv.as_long() - 1):
            new = z3.Store(new, j, z3.Select(el, j + 1))
    else:
        j = z3.Int(f"j!{next(_fresh)}")
        new = z3.Lambda([j], z3.If(j < idx, z3.Select(el, j), z3.Select(el, j + 1)))
    eng.set_list(st, lst, z3.simplify(ln - 1), new, node)


@external("list.__delitem__")
def list_delitem(eng, st, node, a, kw, k, ctx):
    lst, i = a
    if lst.s[0] != "list":
        raise Unsupported(f"del on {lst}")
    ln = eng.list_len(st, lst)
    idx = eng.norm_index(st, lift(i).t, ln, node, ctx)
    _remove_at(eng, st, lst, idx, node)
    return k(st, VNONE)


@external("list.pop")
def list_pop(eng, st, node, a, kw, k, ctx):
    lst = a[0]
    i = lift(a[1]).t if len(a) > 1 else z3.IntVal(-1)
    ln = eng.list_len(st, lst)
    idx = eng.norm_index(st, i, ln, node, ctx)
    v = eng.list_get(st, lst, idx)
    _remove_at(eng, st, lst, idx, node)
    return k(st, v)


@external("list.clear")
def list_clear(eng, st, node, a, kw, k, ctx):
    eng.set_list(st, a[0], z3.IntVal(0), None, node)
    return k(st, VNONE)


def _concat_arrays(eng, st, e1, n1, e2, n2):
    n1v, n2v = z3.simplify(n1), z3.simplify(n2)
    if z3.is_int_value(n2v) and n2v.as_long() <= 8:
        new = e1
        for j in range(n2v.as_long()):
            new = z3.Store(new, z3.simplify(n1 + j), z3.Select(e2, j))
        return new
    j = z3.Int(f"j!{next(_fresh)}")
    return z3.Lambda([j], z3.If(j < n1, z3.Select(e1, j), z3.Select(e2, j - n1)))


@external("list.__iadd__")
def list_iadd(eng, st, node, a, kw, k, ctx):
    lst, other = a
    if lst.s[1] == ("unk",):
        lst = retype(st, lst, ("list", other.s[1], lst.s[2]))
    if other.s[1] == ("unk",):
        return k(st, lst)
    n1, n2 = eng.list_len(st, lst), eng.list_len(st, other)
    e1, e2 = eng.list_elems(st, lst), eng.list_elems(st, other)
    new = _concat_arrays(eng, st, e1, n1, e2, n2)
    eng.set_list(st, lst, z3.simplify(n1 + n2), new, node)
    return k(st, lst)


@external("list.__add__")
def list_add(eng, st, node, a, kw, k, ctx):
    l1, l2 = a
    es = l1.s[1] if l1.s[1] != ("unk",) else l2.s[1]
    if es == ("unk",):
        return k(st, eng.new_list(st, None, z3.IntVal(0)))
    n1, n2 = eng.list_len(st, l1), eng.list_len(st, l2)
    e1 = eng.list_elems(st, l1) if l1.s[1] != ("unk",) else z3.K(z3.IntSort(), elem_default(es))
    if l2.s[1] == ("unk",):
        return k(st, eng.new_list(st, es, n1, e1))
    e2 = eng.list_elems(st, l2)
    new = _concat_arrays(eng, st, e1, n1, e2, n2)
    return k(st, eng.new_list(st, es, z3.simplify(n1 + n2), new))


@external("list.index")
def list_index(eng, st, node, a, kw, k, ctx):
    lst, x = a
    ln = eng.list_len(st, lst)
    el = eng.list_elems(st, lst)
    xv = eng.coerce(x, lst.s[1])
    if lst.s[1][0] == "ref":
        # == on objects is identity unless __eq__ is defined; classes under contract here define none
        eng.assumption_log.add("list.index on objects compares by identity (no __eq__ on BondDescriptor / SmilesToken)")
    j = z3.Int(f"j!{next(_fresh)}")
    s2 = st.fork()
    s2.assume(z3.ForAll([j], z3.Implies(z3.And(j >= 0, j < ln), z3.Select(el, j) != xv.t)))
    if eng.feasible(s2):
        eng.throw(s2, "ValueError", node, ctx)
    kx = fresh("idx", z3.IntSort())
    st.assume(z3.And(kx >= 0, kx < ln, z3.Select(el, kx) == xv.t))
    st.assume(z3.ForAll([j], z3.Implies(z3.And(j >= 0, j < kx), z3.Select(el, j) != xv.t)))
    return k(st, V(INT, kx))


# ------------------------------------------------------------------ strings
@external("str.find")
def str_find(eng, st, node, a, kw, k, ctx):
    s, sub = a[0], lift(a[1])
    start = lift(a[2]).t if len(a) > 2 else z3.IntVal(0)
    return k(st, V(INT, z3.IndexOf(s.t, sub.t, start)))


@external("str.rfind")
def str_rfind(eng, st, node, a, kw, k, ctx):
    s, sub = a[0], lift(a[1])
    r = fresh("rfind", z3.IntSort())
    ls, lsub = z3.Length(s.t), z3.Length(sub.t)
    j = z3.Int(f"j!{next(_fresh)}")
    found = z3.And(r >= 0, r + lsub <= ls, z3.SubString(s.t, r, lsub) == sub.t,
                   z3.ForAll([j], z3.Implies(z3.And(j > r, j + lsub <= ls), z3.SubString(s.t, j, lsub) != sub.t)))
    st.assume(z3.If(z3.Contains(s.t, sub.t), found, r == -1))
    return k(st, V(INT, r))


@external("str.count")
def str_count_h(eng, st, node, a, kw, k, ctx):
    from .calls import str_count
    s, sub = a[0], lift(a[1])
    c = str_count(s.t, sub.t)
    st.assume(c >= 0)
    st.assume((c > 0) == z3.Contains(s.t, sub.t))
    eng.assumption_log.add("str.count(c) is abstract: count >= 0 and count > 0 iff c occurs (axiom on builtins)")
    return k(st, V(INT, c))


@external("str.strip")
def str_strip(eng, st, node, a, kw, k, ctx):
    s = a[0]
    r = fresh("strip", z3.StringSort())
    st.assume(z3.Contains(s.t, r))
    st.assume(z3.Length(r) <= z3.Length(s.t))
    st.assume(strip_term(s.t, lift(a[1]).t if len(a) > 1 else None) == r)
    if len(a) == 1:
        # a text whose first and last characters are printable ASCII other than the blank is returned unchanged (python strips white space only)
        first, last = z3.StrToCode(z3.SubString(s.t, 0, 1)), z3.StrToCode(z3.SubString(s.t, z3.Length(s.t) - 1, 1))
        st.assume(z3.Implies(z3.And(z3.Length(s.t) > 0, first >= 33, first <= 126, last >= 33, last <= 126), r == s.t))
    eng.assumption_log.add("str.strip returns a contiguous part of the text (abstract otherwise: an uninterpreted function of text and character set)")
    return k(st, V(STR, r))


_strip = {}


def strip_term(s_t, chars_t=None):
    if chars_t is None:
        return eng_strip_fn()(s_t)
    if "g" not in _strip:
        _strip["g"] = z3.Function("str_strip_chars", z3.StringSort(), z3.StringSort(), z3.StringSort())
    return _strip["g"](s_t, chars_t)


# ------------------------------------------------------------------ ast.literal_eval on "(a, b)" / "(a)" text
ufunc("lit_num", [STR, INT], REAL)      # i-th number written in a parenthesised literal (uninterpreted function of the text)
ufunc("lit_arity", [STR], INT)          # number of tuple components of the literal; 0 for a parenthesised scalar
ufunc("parse_float", [STR], REAL)       # float(text) (same function the engine uses for float() of a string)


def lit_num(text_t, i_t):
    from .specs import UFUNCS
    return UFUNCS["lit_num"][2](text_t, i_t)


def lit_arity(text_t):
    from .specs import UFUNCS
    return UFUNCS["lit_arity"][2](text_t)


@external("make_tuple")
def literal_eval(eng, st, node, a, kw, k, ctx):
    txt = lift(a[0])
    if txt.s != STR:
        raise Unsupported("literal_eval of a non-string")
    ok = fresh("lit_ok", z3.BoolSort())
    for exc in ("ValueError", "SyntaxError"):
        bad = st.fork()
        bad.assume(z3.Not(ok))
        eng.throw(bad, exc, node, ctx)
    st.assume(ok)
    st.assume(lit_arity(txt.t) >= 0)
    eng.assumption_log.add("ast.literal_eval(text) returns the numbers written in the text, in order (lit_num(text, i), lit_arity(text)), or raises ValueError / SyntaxError (trusted)")
    return k(st, V(("lit",), txt.t))


def eng_strip_fn():
    if "f" not in _strip:
        _strip["f"] = z3.Function("str_strip", z3.StringSort(), z3.StringSort())
    return _strip["f"]


@external("str.startswith")
def str_startswith(eng, st, node, a, kw, k, ctx):
    return k(st, V(BOOL, z3.PrefixOf(lift(a[1]).t, a[0].t)))


@external("str.endswith")
def str_endswith(eng, st, node, a, kw, k, ctx):
    return k(st, V(BOOL, z3.SuffixOf(lift(a[1]).t, a[0].t)))


@external("str.upper")
def str_upper(eng, st, node, a, kw, k, ctx):
    r = fresh("upper", z3.StringSort())
    st.assume(z3.Length(r) == z3.Length(a[0].t))
    return k(st, V(STR, r))


# ------------------------------------------------------------------ numpy (arrays are value lists of reals)
RSUM = z3.Function("rsum", z3.ArraySort(z3.IntSort(), z3.RealSort()), z3.IntSort(), z3.RealSort())
ufunc_registered = False


def rsum_axioms(st, arr, n):
    """instances of the defining equations / lemmas of rsum for this array (lemmas proved separately: lemmas.py)"""
    s = RSUM(arr, n)
    j = z3.Int(f"j!{next(_fresh)}")
    c = z3.Select(arr, 0)
    # sum_const: all elements equal c  =>  sum = n*c
    st.assume(z3.Implies(z3.ForAll([j], z3.Implies(z3.And(j >= 0, j < n), z3.Select(arr, j) == c)), s == z3.ToReal(n) * c))
    # sum_nonneg / sum_pos
    st.assume(z3.Implies(z3.ForAll([j], z3.Implies(z3.And(j >= 0, j < n), z3.Select(arr, j) >= 0)), s >= 0))
    st.assume(z3.Implies(n == 0, s == 0))

    st.assume(z3.Implies(z3.And(z3.ForAll([j], z3.Implies(z3.And(j >= 0, j < n), z3.Select(arr, j) >= 0)),
                                z3.Exists([j], z3.And(j >= 0, j < n, z3.Select(arr, j) > 0))), s > 0))
    # sum_zero_iff for non-negative arrays
    st.assume(z3.Implies(z3.And(z3.ForAll([j], z3.Implies(z3.And(j >= 0, j < n), z3.Select(arr, j) >= 0)), s == 0),
                         z3.ForAll([j], z3.Implies(z3.And(j >= 0, j < n), z3.Select(arr, j) == 0))))
    return s


@external("np.asarray")
def np_asarray(eng, st, node, a, kw, k, ctx):
    lst = a[0]
    if lst.s[0] != "list":
        raise Unsupported(f"np.asarray of {lst}")
    es = lst.s[1]
    dtype_int = "dtype" in kw
    if es == ("unk",):
        es = INT if dtype_int else REAL
        ln = eng.list_len(st, lst)
        new = eng.new_list(st, es, ln, fresh("asarr", elem_array_sort(es)))
        return k(st, V(NpList(es), new.t))
    new = eng.new_list(st, es, eng.list_len(st, lst), eng.list_elems(st, lst))
    return k(st, V(NpList(es), new.t))


@external("np.sum")
def np_sum(eng, st, node, a, kw, k, ctx):
    arr = a[0]
    if arr.s[0] != "list" or arr.s[1] not in (REAL,):
        raise Unsupported(f"np.sum of {arr}")
    s = rsum_axioms(st, eng.list_elems(st, arr), eng.list_len(st, arr))
    eng.assumption_log.add("np.sum is the mathematical sum over reals (rsum with lemmas sum_const, sum_nonneg, sum_scale)")
    return k(st, V(REAL, s))


@external("np.all")
def np_all(eng, st, node, a, kw, k, ctx):
    v = a[0]
    if v.s != ("npbool",):
        raise Unsupported(f"np.all of {v}")
    lst, fn = v.t
    n = eng.list_len(st, lst)
    j = z3.Int(f"j!{next(_fresh)}")
    return k(st, V(BOOL, z3.ForAll([j], z3.Implies(z3.And(j >= 0, j < n), fn(j)))))


@external("nparray.compare")
def np_compare(eng, st, node, a, kw, k, ctx):
    arr, b, op = a
    el = eng.list_elems(st, arr)
    bt = to_real(b) if arr.s[1] == REAL else lift(b).t
    import operator as o
    f = {"Eq": o.eq, "Lt": o.lt, "LtE": o.le, "Gt": o.gt, "GtE": o.ge, "NotEq": o.ne}[op.t]
    return k(st, V(("npbool",), (arr, lambda j: f(z3.Select(el, j), bt))))


def _elementwise(eng, st, arr, rhs, opname, reverse=False):
    el = eng.list_elems(st, arr)
    n = eng.list_len(st, arr)
    es = arr.s[1]
    j = z3.Int(f"j!{next(_fresh)}")
    if rhs.s[0] == "list":
        r_el = eng.list_elems(st, rhs)
        rj = z3.Select(r_el, j)
        if rhs.s[1] == INT and es == REAL:
            rj = z3.ToReal(rj)
    else:
        rj = to_real(rhs) if (es == REAL or opname == "Div" or lift(rhs).s == REAL) else lift(rhs).t
    xj = z3.Select(el, j)
    res_sort = es
    if opname == "Div" or (es == INT and z3.is_real(rj)):
        res_sort = REAL
        if es == INT:
            xj = z3.ToReal(xj)
    a_, b_ = (rj, xj) if reverse else (xj, rj)
    val = {"Add": lambda: a_ + b_, "Sub": lambda: a_ - b_, "Mult": lambda: a_ * b_, "Div": lambda: a_ / b_}[opname]()
    new = z3.Lambda([j], val)
    if opname == "Div":
        eng.assumption_log.add("numpy division by zero is an unspecified real (no inf/nan)")
    return new, n, res_sort, rj


@external("nparray.inplace")
def np_inplace(eng, st, node, a, kw, k, ctx):
    arr, rhs, op = a
    if not is_np(arr.s):
        raise Unsupported(f"in-place arithmetic on a python list {arr}")
    old_el = eng.list_elems(st, arr)
    new, n, rs, rj = _elementwise(eng, st, arr, rhs, op.t)
    if rs != arr.s[1]:
        raise Unsupported("in-place op changes dtype")
    eng.set_list(st, arr, None, new, node)
    if op.t == "Div":
        nan = eng.arr(st, "list.nan")
        bad = (to_real(rhs) == 0) if rhs.s[0] != "list" else z3.BoolVal(True)
        st.heap.arrs["list.nan"] = z3.Store(nan, arr.t, z3.Or(z3.Select(nan, arr.t), bad))
    if op.t == "Div" and rs == REAL and rhs.s[0] != "list":
        # lemma sum_scale (instance): sum(a / c) = sum(a) / c ; sign of a quotient by a positive number
        c = to_real(rhs)
        st.assume(z3.Implies(c != 0, RSUM(new, n) == RSUM(old_el, n) / c))

    if op.t == "Add" and rs == REAL and rhs.s[0] != "list":
        c = to_real(rhs)
        st.assume(RSUM(new, n) == RSUM(old_el, n) + z3.ToReal(n) * c)
    return k(st, arr)


@external("nparray.binop")
def np_binop(eng, st, node, a, kw, k, ctx):
    arr, rhs, op = a
    old_el = eng.list_elems(st, arr)
    new, n, rs, rj = _elementwise(eng, st, arr, rhs, op.t)
    out = eng.new_list(st, rs, n, new)
    if op.t == "Div":
        nan = eng.arr(st, "list.nan")
        bad = (to_real(rhs) == 0) if rhs.s[0] != "list" else z3.BoolVal(True)
        st.heap.arrs["list.nan"] = z3.Store(nan, out.t, z3.Or(z3.Select(nan, arr.t), bad))
    if op.t == "Div" and rs == REAL and rhs.s[0] != "list" and arr.s[1] == REAL:
        c = to_real(rhs)
        st.assume(z3.Implies(c != 0, RSUM(new, n) == RSUM(old_el, n) / c))
    return k(st, V(NpList(rs), out.t))


@external("nparray.rbinop")
def np_rbinop(eng, st, node, a, kw, k, ctx):
    lhs, arr, op = a
    new, n, rs, rj = _elementwise(eng, st, arr, lhs, op.t, reverse=True)
    out = eng.new_list(st, rs, n, new)
    return k(st, V(NpList(rs), out.t))


# ------------------------------------------------------------------ numpy.random.Generator.choice
@external("Generator.choice")
def rng_choice(eng, st, node, a, kw, k, ctx):
    """assumed contract (DESIGN 2.6): raises ValueError unless len(a) == len(p) > 0, p >= 0, sum(p) == 1;
    returns a[k] for some k with p[k] > 0; as a random variable picks index k with probability p[k]."""
    rng, cand = a[0], a[1]
    p = kw.get("p")
    if p is None:
        raise Unsupported("rng.choice without p")
    if cand.s == ("range",):
        lo, hi = lift(cand.t[0]).t, lift(cand.t[1]).t
        n_a = z3.If(hi > lo, hi - lo, 0)
        at = lambda j: lo + j
        cand_desc = ("range", lo, hi)
        ret_sort = INT
    elif cand.s[0] == "list":
        n_a = eng.list_len(st, cand)
        el = eng.list_elems(st, cand)
        at = lambda j: z3.Select(el, j)
        cand_desc = ("list", cand)
        ret_sort = cand.s[1]
    elif is_num(cand):
        n_a = lift(cand).t
        at = lambda j: j
        cand_desc = ("range", z3.IntVal(0), n_a)
        ret_sort = INT
    else:
        raise Unsupported(f"rng.choice over {cand}")
    n_p = eng.list_len(st, p)
    pel = eng.list_elems(st, p)
    j = z3.Int(f"j!{next(_fresh)}")
    psum = rsum_axioms(st, pel, n_p)
    valid = z3.And(n_a == n_p, n_a > 0, z3.ForAll([j], z3.Implies(z3.And(j >= 0, j < n_p), z3.Select(pel, j) >= 0)), psum == 1,
                   z3.Not(z3.Select(eng.arr(st, "list.nan"), p.t)))
    s2 = st.fork()
    s2.assume(z3.Not(valid))
    if eng.feasible(s2):
        eng.throw(s2, "ValueError", node, ctx)
    st.assume(valid)
    kx = fresh("pick", z3.IntSort())
    st.assume(z3.And(kx >= 0, kx < n_a, z3.Select(pel, kx) > 0))
    st.events.append(("choice", {"rng": rng, "cand": cand_desc, "n": n_a, "p": p, "p_elems": pel, "pick": kx, "line": getattr(node, "lineno", 0)}))
    eng.assumption_log.add("numpy Generator.choice(a, p=p): ValueError unless p is a probability vector of len(a) > 0; returns a[k] with p[k] > 0, k drawn with probability p[k] independently (trusted)")
    st.wlog.extend(["ghost.choices", "ghost.last_p", "ghost.last_n", "ghost.last_pick", "ghost.last_rng", "ghost.last_cand"])
    cnt = eng.ghost_get(st, "ghost.choices", INT)
    st.ghost["ghost.choices"] = V(INT, cnt.t + 1)
    lastp = eng.ghost_get(st, "ghost.last_p", ("map", INT, REAL))
    st.ghost["ghost.last_p"] = V(("map", INT, REAL), pel)
    st.ghost["ghost.last_n"] = V(INT, n_a)
    cj = z3.Int(f"c!{next(_fresh)}")
    lc_arr = z3.Lambda([cj], at(cj))
    st.ghost["ghost.last_cand"] = V(("map", INT, INT), lc_arr)
    st.ghost["ghost.last_pick"] = V(INT, kx)
    st.ghost["ghost.last_rng"] = V(Opaque("Generator"), rng.t)
    return k(st, eng.typing_facts(st, V(ret_sort, at(kx))) if ret_sort[0] in ("ref", "list") else V(ret_sort, at(kx)))


# ------------------------------------------------------------------ text files as abstract sequences of lines
@external("open")
def builtin_open(eng, st, node, a, kw, k, ctx):
    """open(name[, "r"]) : a fresh list of lines (any number, any content) or OSError.  Writing modes are not modelled."""
    if len(a) > 1 and not (a[1].s == PY and a[1].t in ("r", "rt")):
        raise Unsupported("open() in a mode other than 'r'")
    s_bad = st.fork()
    okv = fresh("open_ok", z3.BoolSort())
    s_bad.assume(z3.Not(okv))
    eng.throw(s_bad, "OSError", node, ctx)
    st.assume(okv)
    n = fresh("nlines", z3.IntSort())
    st.assume(n >= 0)
    lines = fresh("lines", z3.ArraySort(z3.IntSort(), z3.StringSort()))
    eng.assumption_log.add("open(name, 'r') yields an arbitrary finite sequence of text lines or raises OSError; iterating it yields the lines in order (trusted)")
    return k(st, eng.new_list(st, STR, n, lines))


@external("files")
def importlib_files(eng, st, node, a, kw, k, ctx):
    return k(st, V(("opq", "Traversable", False), fresh("pkgdir", z3.IntSort())))


@external("Traversable.joinpath")
def traversable_joinpath(eng, st, node, a, kw, k, ctx):
    eng.assumption_log.add("importlib.resources.files(pkg).joinpath(...) names the bundled data file (an opaque path; trusted)")
    return k(st, V(STR, fresh("bundled_path", z3.StringSort())))


@external("str.split")
def str_split(eng, st, node, a, kw, k, ctx):
    """text.split([sep]) : a fresh list of texts; with a separator at least one piece, and exactly one piece iff the separator does not occur.
    The pieces themselves are uninterpreted functions of (text, separator, position)."""
    s = a[0]
    sep = lift(a[1]) if len(a) > 1 else None
    n = fresh("npieces", z3.IntSort())
    pieces = fresh("pieces", z3.ArraySort(z3.IntSort(), z3.StringSort()))
    if sep is not None:
        st.assume(n >= 1)
        st.assume((n == 1) == z3.Not(z3.Contains(s.t, sep.t)))
    else:
        st.assume(n >= 0)
    eng.assumption_log.add("str.split returns a list of texts (their number: 1 iff the separator does not occur; contents abstract)")
    return k(st, eng.new_list(st, STR, n, pieces))


@external("list.sum")
def nparray_sum(eng, st, node, a, kw, k, ctx):
    """arr.sum() of a numpy array (lists and arrays share one sort; a python list has no .sum and is never called this way in the verified sources)"""
    return np_sum(eng, st, node, a, kw, k, ctx)
