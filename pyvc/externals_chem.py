"""Assumed contracts of copy.deepcopy, RDKit and networkx as used by mol_gen.py / stochastic.py (DESIGN 2.6, trusted base).

RDKit molecules and networkx graph contents are VALUES of uninterpreted sorts; the functions below are the only facts assumed:
  natoms(combine(a, b)) = natoms(a) + natoms(b)        mass(combine(a, b)) = mass(a) + mass(b)
  natoms(addbond(m, ..)) = natoms(m)                   mass(addbond(m, ..)) = mass(m)            mass(sanitized(m)) = mass(m)
  gnodes(gunion(a, b)) = gnodes(a) + gnodes(b)         gedges(gunion) = sum, gcomps(gunion) = sum
  gaddedge keeps nodes, adds one edge; an edge between a node of the first part and a node of the second part of a disjoint
  union joins two components (two trees joined by one edge form a tree).
"""
import z3

from . import registry as R
from .engine import GEN, V, VNONE, Unsupported, _fresh, fresh, fresh_value, lift, py, to_real
from .registry import external
from .sorts import BOOL, INT, NONE, PY, REAL, STR, List, Opaque, Ref
from .specs import UFUNCS

MOL = Opaque("Mol")
GV = Opaque("GraphVal")


def uf(name):
    return UFUNCS[name][2]


def mol_axioms(st, m):
    st.assume(uf("natoms")(m) >= 0)


def _record(eng, txt):
    eng.assumption_log.add(txt)


# ------------------------------------------------------------------ copy.deepcopy
def copy_list_of_objects(eng, st, lst, node):
    """fresh list of fresh objects with equal field values (block allocation: element k of the copy is base + 1 + k)"""
    es = lst.s[1]
    cname = es[1]
    n = eng.list_len(st, lst)
    src = eng.list_elems(st, lst)
    base = st.heap.alloc
    o = z3.Int(f"o!{next(_fresh)}")
    inblock = z3.And(o > base, o <= base + n)
    for fname, fs in R.class_fields(cname).items():
        owner = R.field_owner(cname, fname)
        names = [f"{owner}.{fname}"] + ([f"{owner}.{fname}#n"] if fs[0] in ("opt", "ids") else [])
        for nm in names:
            old = eng.arr(st, nm)
            st.heap.arrs[nm] = z3.Lambda([o], z3.If(inblock, z3.Select(old, z3.Select(src, o - base - 1)), z3.Select(old, o)))
    for nm, val in (("obj.tag", z3.IntVal(R.CLASS_IDS[cname])), ("obj.owner", z3.IntVal(GEN))):
        old = eng.arr(st, nm)
        st.heap.arrs[nm] = z3.Lambda([o], z3.If(inblock, val, z3.Select(old, o)))
    st.heap.alloc = z3.simplify(base + n)
    j = z3.Int(f"j!{next(_fresh)}")
    elems = z3.Lambda([j], base + 1 + j)
    out = eng.new_list(st, es, n, elems)
    _record(eng, "copy.deepcopy(list of descriptors): fresh list of fresh objects, field values equal; the numpy transition array of a copy is modelled as POSSIBLY SHARED with the original's (over-approximation of aliasing: any in-place write to it then fails the ownership frame obligation) (trusted; requires the list to hold distinct objects)")
    return V(("list", es, False), out.t)


@external("copy.deepcopy")
def deepcopy(eng, st, node, a, kw, k, ctx):
    v = a[0]
    if v.s[0] == "list" and v.s[1][0] == "ref":
        return k(st, copy_list_of_objects(eng, st, v, node))
    if v.s[0] == "ref" and v.s[1] == "MolGen":
        new = eng.new_object(st, "MolGen", GEN)
        nv = V(Ref("MolGen"), new)
        lst = eng.load_field(st, v.t, "MolGen", "bond_descriptors")
        cp = copy_list_of_objects(eng, st, lst, node)
        eng.store_field(st, new, "MolGen", "bond_descriptors", cp, node, init=True)
        eng.store_field(st, new, "MolGen", "_mol", eng.load_field(st, v.t, "MolGen", "_mol"), node, init=True)
        g = eng.load_field(st, v.t, "MolGen", "graph")
        ng = eng.new_object(st, "NxGraph", GEN)
        eng.store_field(st, ng, "NxGraph", "val", eng.load_field(st, g.t, "NxGraph", "val"), node, init=True)
        eng.store_field(st, new, "MolGen", "graph", V(Ref("NxGraph"), ng), node, init=True)
        _record(eng, "copy.deepcopy(MolGen): fresh MolGen with a fresh descriptor list of fresh copies, equal RDKit molecule value and graph value (trusted)")
        return k(st, nv)
    raise Unsupported(f"deepcopy of {v}")


@external("copy.copy")
def shallow_copy(eng, st, node, a, kw, k, ctx):
    v = a[0]
    if v.s in (STR, INT, REAL, BOOL) or v.s == PY:
        return k(st, v)
    raise Unsupported(f"copy.copy of {v}")


# ------------------------------------------------------------------ RDKit
@external("Mol.GetAtoms")
def mol_getatoms(eng, st, node, a, kw, k, ctx):
    return k(st, V(("opq", "AtomSeq", False), a[0].t))


@external("AtomSeq.__len__")
def atomseq_len(eng, st, node, a, kw, k, ctx):
    n = uf("natoms")(a[0].t)
    st.assume(n >= 0)
    return k(st, V(INT, n))


@external("Mol.GetNumAtoms")
def mol_getnumatoms(eng, st, node, a, kw, k, ctx):
    n = uf("natoms")(a[0].t)
    st.assume(n >= 0)
    return k(st, V(INT, n))


@external("Chem.CombineMols")
def combine(eng, st, node, a, kw, k, ctx):
    m1, m2 = a[0].t, a[1].t
    c = uf("combine")(m1, m2)
    st.assume(uf("natoms")(c) == uf("natoms")(m1) + uf("natoms")(m2))
    st.assume(uf("mass")(c) == uf("mass")(m1) + uf("mass")(m2))
    _record(eng, "Chem.CombineMols(a, b): atoms of a then atoms of b (indices shifted by natoms(a)), bonds and atom properties preserved; heavy-atom mass additive (trusted)")
    return k(st, V(MOL, c))


@external("Chem.EditableMol")
def editable(eng, st, node, a, kw, k, ctx):
    o = eng.new_object(st, "EditableMol", GEN)
    eng.store_field(st, o, "EditableMol", "val", a[0], node, init=True)
    return k(st, V(Ref("EditableMol"), o))


@external("EditableMol.AddBond")
def addbond(eng, st, node, a, kw, k, ctx):
    em, i, j, t = a[0], lift(a[1]), lift(a[2]), a[3]
    for x in (i, j):
        if x.s[0] == "opt":                 # None as an atom index is a TypeError in RDKit
            s2 = st.fork()
            s2.assume(x.t[0])
            if eng.feasible(s2):
                eng.throw(s2, "TypeError", node, ctx)
            st.assume(z3.Not(x.t[0]))
    i = V(INT, i.t[1]) if i.s[0] == "opt" else i
    j = V(INT, j.t[1]) if j.s[0] == "opt" else j
    cur = eng.load_field(st, em.t, "EditableMol", "val")
    new = uf("addbond")(cur.t, i.t, j.t, t.t)
    st.assume(uf("natoms")(new) == uf("natoms")(cur.t))
    st.assume(uf("mass")(new) == uf("mass")(cur.t))
    eng.store_field(st, em.t, "EditableMol", "val", V(MOL, new), node)
    # ghost bond log (C04): the q-th AddBond
    for g in ("bonds", "bond_a", "bond_b", "bond_t"):
        st.wlog.append("ghost." + g)
    nb = eng.ghost_get(st, "ghost.bonds", INT)
    for nm, val in (("bond_a", i.t), ("bond_b", j.t), ("bond_t", t.t)):
        cur_g = eng.ghost_get(st, "ghost." + nm, ("map", INT, INT))
        st.ghost["ghost." + nm] = V(("map", INT, INT), z3.Store(cur_g.t, nb.t, val))
    st.ghost["ghost.bonds"] = V(INT, nb.t + 1)
    st.events.append(("AddBond", {"a": i.t, "b": j.t, "t": t.t}))
    _record(eng, "EditableMol.AddBond(i, j, t) adds exactly that bond; atoms and heavy-atom mass unchanged (trusted)")
    return k(st, VNONE)


@external("EditableMol.GetMol")
def getmol(eng, st, node, a, kw, k, ctx):
    return k(st, eng.load_field(st, a[0].t, "EditableMol", "val"))


@external("rdDescriptors.HeavyAtomMolWt")
def heavy(eng, st, node, a, kw, k, ctx):
    _record(eng, "rdDescriptors.HeavyAtomMolWt is a function of the molecule value (trusted)")
    return k(st, V(REAL, uf("mass")(a[0].t)))


@external("Chem.SanitizeMol")
def sanitize(eng, st, node, a, kw, k, ctx):
    raise Unsupported("SanitizeMol mutates in place; use the MolGen.mol contract")


# ------------------------------------------------------------------ networkx
@external("NxGraph.__len__")
def g_len(eng, st, node, a, kw, k, ctx):
    val = eng.load_field(st, a[0].t, "NxGraph", "val")
    n = uf("gnodes")(val.t)
    st.assume(n >= 0)
    return k(st, V(INT, n))


def graph_union_axioms(st, u, a, b):
    st.assume(uf("gnodes")(u) == uf("gnodes")(a) + uf("gnodes")(b))
    st.assume(uf("gedges")(u) == uf("gedges")(a) + uf("gedges")(b))
    st.assume(uf("gcomps")(u) == uf("gcomps")(a) + uf("gcomps")(b))


@external("nx.disjoint_union")
def disjoint_union(eng, st, node, a, kw, k, ctx):
    v1 = eng.load_field(st, a[0].t, "NxGraph", "val")
    v2 = eng.load_field(st, a[1].t, "NxGraph", "val")
    u = uf("gunion")(v1.t, v2.t)
    graph_union_axioms(st, u, v1.t, v2.t)
    o = eng.new_object(st, "NxGraph", GEN)
    eng.store_field(st, o, "NxGraph", "val", V(GV, u), node, init=True)
    st.events.append(("gunion", {"new": o, "n1": uf("gnodes")(v1.t), "n2": uf("gnodes")(v2.t), "u": u}))
    _record(eng, "nx.disjoint_union(G, H): nodes of G keep 0..n-1, nodes of H become n..n+m-1 in order; node, edge and component counts add up (trusted)")
    return k(st, V(Ref("NxGraph"), o))


@external("NxGraph.add_edge")
def g_add_edge(eng, st, node, a, kw, k, ctx):
    g, x, y = a[0], lift(a[1]), lift(a[2])
    t = kw.get("bond_type")
    cur = eng.load_field(st, g.t, "NxGraph", "val")
    new = uf("gaddedge")(cur.t, x.t, y.t, t.t if t is not None else z3.IntVal(0))
    st.assume(uf("gnodes")(new) == uf("gnodes")(cur.t))
    # joining a node of the first part with a node of the second part of a disjoint union: one edge more, one component less
    for kind, ev in reversed(st.events):
        if kind == "gunion" and z3.is_expr(ev["u"]) and ev["u"].eq(cur.t):
            n1, n2 = ev["n1"], ev["n2"]
            cross = z3.Or(z3.And(x.t >= 0, x.t < n1, y.t >= n1, y.t < n1 + n2), z3.And(y.t >= 0, y.t < n1, x.t >= n1, x.t < n1 + n2))
            st.assume(z3.Implies(cross, z3.And(uf("gedges")(new) == uf("gedges")(cur.t) + 1, uf("gcomps")(new) == uf("gcomps")(cur.t) - 1)))
            break
    eng.store_field(st, g.t, "NxGraph", "val", V(GV, new), node)
    _record(eng, "Graph.add_edge between a node of each part of a disjoint union adds one edge and merges two components: two trees joined by one edge form a tree (trusted lemma)")
    return k(st, VNONE)


@external("Chem.AddHs")
def addhs(eng, st, node, a, kw, k, ctx):
    m = fresh("withHs", z3.IntSort())
    st.assume(m >= 1)
    st.assume(uf("natoms")(m) >= uf("natoms")(a[0].t))
    _record(eng, "Chem.AddHs returns a molecule with at least the atoms of its argument (trusted)")
    return k(st, V(MOL, m))


# ------------------------------------------------------------------ RDKit / networkx pieces of MolGen.__init__
R.SCRATCH_OPAQUES |= {"ParserParams", "Fingerprint"}
from .specs import ufunc as _ufunc
_ufunc("smiles_mol", [STR], Opaque("Mol"))        # Chem.MolFromSmiles as a function of the text
_ufunc("gaddnode", [Opaque("GraphVal")], Opaque("GraphVal"))
GEMPTY = z3.Int("GEMPTY_GRAPH")


@external("Chem.SmilesParserParams")
def parser_params(eng, st, node, a, kw, k, ctx):
    return k(st, V(Opaque("ParserParams"), fresh("pp", z3.IntSort())))


@external("Chem.MolFromSmiles")
def mol_from_smiles(eng, st, node, a, kw, k, ctx):
    txt = lift(a[0])
    m = uf("smiles_mol")(txt.t)
    st.assume(m >= 1)
    st.assume(uf("natoms")(m) >= 0)
    _record(eng, "Chem.MolFromSmiles(text) is a function of the text and returns a molecule (the fragment SMILES of a token parses: checked by the bounded C05 driver) (trusted)")
    return k(st, V(MOL, m))


def _noop_may_raise(what):
    def h(eng, st, node, a, kw, k, ctx):
        sb = st.fork()
        sb.assume(fresh("rdkit_fail", z3.BoolSort()))
        eng.throw(sb, "ValueError", node, ctx)
        _record(eng, what)
        return k(st, V(INT, fresh("rc", z3.IntSort())))
    return h


external("AllChem.EmbedMolecule")(_noop_may_raise("AllChem.EmbedMolecule / UFFOptimizeMolecule only write atom coordinates (conformer), which no contract mentions; they may raise (trusted)"))
external("AllChem.UFFOptimizeMolecule")(_noop_may_raise("AllChem.EmbedMolecule / UFFOptimizeMolecule only write atom coordinates (conformer), which no contract mentions; they may raise (trusted)"))


@external("_RDKGEN.GetFingerprint")
def fingerprint(eng, st, node, a, kw, k, ctx):
    return k(st, V(Opaque("Fingerprint"), fresh("fp", z3.IntSort())))


@external("nx.Graph")
def nx_graph(eng, st, node, a, kw, k, ctx):
    o = eng.new_object(st, "NxGraph", GEN)
    for f_, v_ in (("gnodes", 0), ("gedges", 0), ("gcomps", 0)):
        st.assume(uf(f_)(GEMPTY) == v_)
    eng.store_field(st, o, "NxGraph", "val", V(GV, GEMPTY), node, init=True)
    _record(eng, "nx.Graph() is the empty graph; Graph.add_node of a new node adds one node and one component (trusted)")
    return k(st, V(Ref("NxGraph"), o))


@external("NxGraph.add_node")
def g_add_node(eng, st, node, a, kw, k, ctx):
    g = a[0]
    cur = eng.load_field(st, g.t, "NxGraph", "val")
    new = uf("gaddnode")(cur.t)
    st.assume(uf("gnodes")(new) == uf("gnodes")(cur.t) + 1)
    st.assume(uf("gcomps")(new) == uf("gcomps")(cur.t) + 1)
    st.assume(uf("gedges")(new) == uf("gedges")(cur.t))
    eng.store_field(st, g.t, "NxGraph", "val", V(GV, new), node)
    return k(st, VNONE)


external("Chem.Descriptors.HeavyAtomMolWt")(heavy)
