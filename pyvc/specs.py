"""Pure evaluation of contract expressions (requires / ensures / invariants / ghost updates).

Contract clauses are Python expressions.  Available besides the function's own names:
  result, old(e), at_loop_entry(e), len(x), forall(lambda i: P) / forall(lo, hi, lambda i: P), exists(...),
  implies(a, b), iff(a, b), ite(c, a, b), fresh(o), preexisting(o), owner(o), unchanged("Class.field"),
  unchanged_except("Class.field", o1, ...), lists_unchanged_except(l1, ...), same_elems(l1, l2),
  isinstance(x, Class), is_none(x), truthy(x), abs(x), spec functions, uninterpreted functions, ghost variables.
"""
import ast

import z3

from . import registry as R
from .engine import (GEN, NOTATION, V, VNONE, Unsupported, _fresh, arr_sort_for, fresh, fresh_value, is_num, lift, py,
                     to_real, z3sort)
from .sorts import BOOL, IDS, INT, NONE, PY, REAL, STR, List, Ref, classes_of, is_intlike, show

UFUNCS = {}   # name -> (argsorts, retsort, z3 function)
NONNEG = {"natoms", "gnodes", "gedges", "gcomps"}


def ufunc(name, argsorts, retsort):
    f = z3.Function(name, *[z3sort(a) for a in argsorts], z3sort(retsort))
    UFUNCS[name] = (list(argsorts), retsort, f)
    return f


R.ufunc = ufunc
_parse_cache = {}


def parse_expr(text):
    if text not in _parse_cache:
        _parse_cache[text] = ast.parse(text.strip(), mode="eval").body
    return _parse_cache[text]


class SpecEval:
    def __init__(self, eng, st, pre_state=None, extra=None):
        self.eng, self.st, self.pre = eng, st, pre_state
        self.extra = extra or {}

    def boolean(self, text):
        node = parse_expr(text) if isinstance(text, str) else text
        v = self.eval(node)
        return self.eng.truth(self.st, v) if v.s != BOOL else v.t

    def value(self, text):
        return self.eval(parse_expr(text))

    # --------------------------------------------------------------
    def eval(self, node):
        m = getattr(self, "e_" + type(node).__name__, None)
        if m is None:
            raise Unsupported(f"spec expression {type(node).__name__}: {ast.unparse(node)}")
        return m(node)

    def e_Constant(self, node):
        return py(node.value)

    def e_Name(self, node):
        n = node.id
        if n in self.extra:
            return self.extra[n]
        if n in self.st.env:
            return self.st.env[n]
        if n in R.GHOSTS:
            return self.eng.ghost_get(self.st, "ghost." + n, R.GHOSTS[n])
        if n in ("GEN", "NOTATION"):
            return py({"GEN": GEN, "NOTATION": NOTATION}[n])
        if n in ("True", "False", "None"):
            return py({"True": True, "False": False, "None": None}[n])
        mod = self.eng.key.split(".")[0] if self.eng.key else None
        g = R.MODULE_GLOBALS.get(mod, {})
        if n in g:
            return self.eng.ghost_get(self.st, f"global.{mod}.{n}", g[n])
        if n in R.ENUMS:
            return py(R.ENUMS[n])
        if n in R.NAME_CONSTS:
            return R.NAME_CONSTS[n]
        owners = [m for m, gs in R.MODULE_GLOBALS.items() if n in gs]
        if len(owners) == 1:       # a global of another module (contracts may mention the state their callees keep)
            return self.eng.ghost_get(self.st, f"global.{owners[0]}.{n}", R.MODULE_GLOBALS[owners[0]][n])
        raise Unsupported(f"spec: unknown name {n}")

    def e_Attribute(self, node):
        if isinstance(node.value, ast.Name) and node.value.id in R.ENUM_NS:
            return py(R.ENUM_NS[node.value.id][node.attr])
        if self._is_old_call(node.value):
            raise Unsupported(f"contract text {ast.unparse(node)!r}: old(e).f reads the CURRENT heap through an old reference; write old(e.f)")
        o = self.eval(node.value)
        if o.s[0] == "ref":
            cl = [c for c in classes_of(o.s)]
            cands = []
            for c in cl:
                for sc in R.subclasses(c):
                    if node.attr in R.class_fields(sc) and sc not in cands:
                        cands.append(sc)
            if not cands:
                # a pure getter under contract (its `value` expression is proved against the getter's body)
                for c in cl:
                    for sc in R.subclasses(c):
                        key = self.eng.method_key(sc, node.attr)
                        if key and key in R.CONTRACTS and R.CONTRACTS[key].value:
                            sub = SpecEval(self.eng, self.st, self.pre, dict(self.extra, self=V(("ref", sc, False), o.t)))
                            return sub.value(R.CONTRACTS[key].value)
                # a field of a class outside the static sort (only meaningful under an isinstance guard of the clause):
                # the heap model is total, so this is a plain array read
                anyc = [c for c in R.CLASSES if node.attr in R.CLASSES[c]["fields"]]
                if len(anyc) == 1:
                    return self.eng.load_field(self.st, o.t, anyc[0], node.attr)
                raise Unsupported(f"spec: field {node.attr} of {show(o.s)}")
            owners = {R.field_owner(c, node.attr) for c in cands}
            if len(owners) == 1:
                return self.eng.load_field(self.st, o.t, cands[0], node.attr)
            # same field name in unrelated classes: select by tag
            tag = z3.Select(self.eng.arr(self.st, "obj.tag"), o.t)
            vals = [(c, self.eng.load_field(self.st, o.t, c, node.attr)) for c in cands]
            res = vals[-1][1]
            if res.s[0] in ("opt", "ids", "tuple"):
                raise Unsupported("spec: union field of compound sort")
            t = res.t
            for c, v in reversed(vals[:-1]):
                t = z3.If(tag == R.CLASS_IDS[c], v.t, t)
            return V(res.s, t)
        raise Unsupported(f"spec: attribute {node.attr} of {o}")

    @staticmethod
    def _is_old_call(n):
        return isinstance(n, ast.Call) and isinstance(n.func, ast.Name) and n.func.id in ("old", "at_loop_entry")

    def e_Subscript(self, node):
        if self._is_old_call(node.value):
            raise Unsupported(f"contract text {ast.unparse(node)!r}: old(e)[k] reads the CURRENT heap through an old reference; write old(e[k])")
        o = self.eval(node.value)
        if isinstance(node.slice, ast.Slice):
            lo_ = lift(o) if o.s == PY else o
            if lo_.s != STR or node.slice.step is not None:
                raise Unsupported("spec: slice")
            ln = z3.Length(lo_.t)

            def clamp(n, default):
                if n is None:
                    return default
                t = lift(self.eval(n)).t
                t = z3.If(t < 0, t + ln, t)
                return z3.If(t < 0, z3.IntVal(0), z3.If(t > ln, ln, t))
            a, b = clamp(node.slice.lower, z3.IntVal(0)), clamp(node.slice.upper, ln)
            return V(STR, z3.SubString(lo_.t, a, z3.If(b > a, b - a, z3.IntVal(0))))
        i = self.eval(node.slice)
        if o.s[0] == "list":
            li = lift(i)
            ln = self.eng.list_len(self.st, o)
            idx = li.t
            if z3.is_int_value(z3.simplify(idx)) and z3.simplify(idx).as_long() < 0:
                idx = idx + ln
            return self.eng.list_get(self.st, o, idx)
        if o.s[0] == "map":
            return V(o.s[2], z3.Select(o.t, lift(i).t))
        if o.s[0] == "dict":
            return self.eng.dict_val(self.st, o, i)
        if o.s[0] == "tuple" and i.s == PY:
            return o.t[i.t]
        if o.s == PY and i.s == PY:
            return py(o.t[i.t])
        lo = lift(o)
        if lo.s == STR:
            li = lift(i)
            idx = z3.If(li.t < 0, li.t + z3.Length(lo.t), li.t)
            return V(STR, z3.SubString(lo.t, idx, 1))
        raise Unsupported(f"spec: subscript of {o}")

    def e_BoolOp(self, node):
        vs = [self.eval(v) for v in node.values]
        bs = [self.eng.truth(self.st, v) for v in vs]
        return V(BOOL, z3.And(bs) if isinstance(node.op, ast.And) else z3.Or(bs))

    def e_UnaryOp(self, node):
        v = self.eval(node.operand)
        if isinstance(node.op, ast.Not):
            return V(BOOL, z3.Not(self.eng.truth(self.st, v)))
        if isinstance(node.op, ast.USub):
            if v.s == PY:
                return py(-v.t)
            lv = lift(v)
            return V(lv.s, -lv.t)
        raise Unsupported("spec: unary")

    def num(self, v):
        if v.s[0] == "opt":
            return V(v.s[1], v.t[1])
        return v

    def e_BinOp(self, node):
        a, b = self.num(self.eval(node.left)), self.num(self.eval(node.right))
        op = node.op
        if a.s == PY and b.s == PY:
            import operator as o
            f = {ast.Add: o.add, ast.Sub: o.sub, ast.Mult: o.mul, ast.Div: o.truediv, ast.FloorDiv: o.floordiv,
                 ast.Mod: o.mod, ast.Pow: o.pow}[type(op)]
            return py(f(a.t, b.t))
        la, lb = lift(a), lift(b)
        if isinstance(op, ast.Add) and la.s == STR and lb.s == STR:
            return V(STR, z3.Concat(la.t, lb.t))
        if not (is_num(la) and is_num(lb)):
            if is_intlike(la.s) and is_intlike(lb.s):
                la, lb = V(INT, la.t), V(INT, lb.t)
            else:
                raise Unsupported(f"spec: arithmetic on {a}, {b}")
        both_int = la.s in (INT, BOOL) and lb.s in (INT, BOOL)
        if both_int:
            x = la.t if la.s == INT else z3.If(la.t, 1, 0)
            y = lb.t if lb.s == INT else z3.If(lb.t, 1, 0)
        else:
            x, y = to_real(la), to_real(lb)
        if isinstance(op, ast.Add):
            return V(INT if both_int else REAL, x + y)
        if isinstance(op, ast.Sub):
            return V(INT if both_int else REAL, x - y)
        if isinstance(op, ast.Mult):
            return V(INT if both_int else REAL, x * y)
        if isinstance(op, ast.Div):
            return V(REAL, to_real(la) / to_real(lb))
        if isinstance(op, ast.FloorDiv) and both_int:
            return V(INT, x / y)
        if isinstance(op, ast.Mod) and both_int:
            return V(INT, x % y)
        if isinstance(op, ast.Pow):
            from .engine import power
            return power(None, la, lb)
        raise Unsupported("spec: operator")

    def e_Compare(self, node):
        left = self.eval(node.left)
        acc = []
        for op, cn in zip(node.ops, node.comparators):
            right = self.eval(cn)
            acc.append(self.cmp(op, left, right))
            left = right
        return V(BOOL, z3.And(acc) if len(acc) > 1 else acc[0])

    def cmp(self, op, a, b):
        e = self.eng
        if isinstance(op, ast.Eq):
            return e.equal(self.st, a, b)
        if isinstance(op, ast.NotEq):
            return z3.Not(e.equal(self.st, a, b))
        if isinstance(op, ast.Is):
            return e.identical(self.st, a, b)
        if isinstance(op, ast.IsNot):
            return z3.Not(e.identical(self.st, a, b))
        if isinstance(op, ast.In):
            return e.contains(self.st, a, b, None)
        if isinstance(op, ast.NotIn):
            return z3.Not(e.contains(self.st, a, b, None))
        a, b = self.num(a), self.num(b)
        la, lb = lift(a), lift(b)
        if is_intlike(la.s) and is_intlike(lb.s):
            x, y = la.t, lb.t
        else:
            x, y = to_real(la), to_real(lb)
        return {ast.Lt: x < y, ast.LtE: x <= y, ast.Gt: x > y, ast.GtE: x >= y}[type(op)]

    def e_IfExp(self, node):
        c = self.boolean(node.test)
        a, b = self.eval(node.body), self.eval(node.orelse)
        return self.ite(c, a, b)

    def ite(self, c, a, b):
        if a.s == PY or b.s == PY:
            want = REAL if (a.s == REAL or b.s == REAL) else None
            a, b = lift(a, want), lift(b, want)
        if a.s == INT and b.s == REAL:
            a = V(REAL, to_real(a))
        if b.s == INT and a.s == REAL:
            b = V(REAL, to_real(b))
        if a.s[0] in ("opt", "ids"):
            return V(a.s, (z3.If(c, a.t[0], b.t[0]), z3.If(c, a.t[1], b.t[1])))
        if a.s == NONE and b.s == NONE:
            return VNONE
        return V(a.s, z3.If(c, a.t, b.t))

    def e_Tuple(self, node):
        vs = [self.eval(e) for e in node.elts]
        return V(("tuple", tuple(v.s for v in vs)), tuple(vs))

    def e_JoinedStr(self, node):
        parts = []
        for v in node.values:
            if isinstance(v, ast.Constant):
                parts.append(z3.StringVal(v.value))
            else:
                val = self.eval(v.value)
                out = []
                self.eng.to_str(self.st, val, v, lambda s, sv: out.append(sv), None)
                parts.append(lift(out[0]).t)
        if not parts:
            return py("")
        t = parts[0]
        for p in parts[1:]:
            t = z3.Concat(t, p)
        return V(STR, t)

    # -------------------------------------------------------------- calls
    def e_Call(self, node):
        f = node.func
        if isinstance(f, ast.Name):
            n = f.id
            m = getattr(self, "c_" + n, None)
            if m is not None:
                return m(node)
            if n in R.SPECFNS:
                argn, body, _ = R.SPECFNS[n]
                args = [self.eval(a) for a in node.args]
                sub = SpecEval(self.eng, self.st, self.pre, dict(zip(argn, args)))
                sub.in_old = getattr(self, "in_old", False)
                return sub.eval(body)
            if n in UFUNCS:
                sorts, ret, fn = UFUNCS[n]
                args = [self.eng.coerce(self.eval(a), s).t for a, s in zip(node.args, sorts)]
                app = fn(*args)
                if n in NONNEG:
                    self.st.assume(app >= 0)       # counts are non-negative (part of the assumed contracts of RDKit / networkx values)
                return V(ret, app)
        if isinstance(f, ast.Attribute):
            recv = self.eval(f.value)
            lr = lift(recv) if recv.s == PY else recv
            if lr.s == STR:
                args = [lift(self.eval(a)) for a in node.args]
                if f.attr == "startswith":
                    return V(BOOL, z3.PrefixOf(args[0].t, lr.t))
                if f.attr == "endswith":
                    return V(BOOL, z3.SuffixOf(args[0].t, lr.t))
                if f.attr == "find":
                    return V(INT, z3.IndexOf(lr.t, args[0].t, args[1].t if len(args) > 1 else z3.IntVal(0)))
                if f.attr == "count":
                    return V(INT, self.eng_count(lr.t, args[0].t))
                if f.attr == "strip":
                    from .externals import strip_term
                    return V(STR, strip_term(lr.t, args[0].t if args else None))
        raise Unsupported(f"spec: call {ast.unparse(node)}")

    def eng_count(self, s, c):
        from .calls import str_count
        return str_count(s, c)

    def c_old(self, node):
        if self.pre is None:
            raise Unsupported("old() without pre-state")
        sub = SpecEval(self.eng, self._with_env(self.pre), None, self.extra)
        v = sub.eval(node.args[0])
        self._merge_pc(sub)
        return v

    def c_entry(self, node):
        """entry(p): the VALUE parameter p had at function entry (an object reference stays a reference; fields read through it
        are read in the current state, unlike old(p.f))"""
        base = self.pre if self.pre is not None else self.st.old
        n = node.args[0].id
        if base is None or n not in base.env:
            raise Unsupported(f"entry({n}): not a parameter")
        return base.env[n]

    def c_at_loop_entry(self, node):
        le = self.st.loop_entry
        if le is None:
            raise Unsupported("at_loop_entry outside loop")
        sub = SpecEval(self.eng, self._with_env(le), None, self.extra)
        v = sub.eval(node.args[0])
        self._merge_pc(sub)
        return v

    def _with_env(self, other):
        """state `other` (heap/ghost of an earlier point); locals it lacks are taken from the current env"""
        s = other.fork()
        s.old = other.old
        env = dict(self.st.env)
        env.update(other.env)
        s.env = env
        s._base_pc = len(s.pc)
        return s

    def _merge_pc(self, sub):
        # typing facts learnt while evaluating in the other state are facts about that state: keep them
        extra = sub.st.pc[getattr(sub.st, "_base_pc", len(sub.st.pc)):]
        for b in extra:
            self.st.assume(b)

    def c_len(self, node):
        v = self.eval(node.args[0])
        if v.s[0] == "list":
            return V(INT, self.eng.list_len(self.st, v))
        if v.s[0] == "dict":
            return V(INT, self.eng.dict_len(self.st, v))
        lv = lift(v)
        if lv.s == STR:
            return V(INT, z3.Length(lv.t))
        if v.s[0] == "tuple":
            return py(len(v.t))
        raise Unsupported(f"spec: len of {v}")

    def _quant(self, node, exists, sort=INT):
        args = node.args
        lam = args[-1]
        assert isinstance(lam, ast.Lambda)
        names = [a.arg for a in lam.args.args]
        mk = z3.String if sort == STR else z3.Int
        vars_ = [mk(f"{n}!{next(_fresh)}") for n in names]
        extra = dict(self.extra)
        for n, v in zip(names, vars_):
            extra[n] = V(sort, v)
        sub = SpecEval(self.eng, self.st, self.pre, extra)
        guard = []
        if len(args) == 3:
            lo, hi = lift(self.eval(args[0])).t, lift(self.eval(args[1])).t
            for v in vars_:
                guard += [v >= lo, v < hi]
        n0 = len(self.st.pc)
        body = sub.boolean(lam.body)
        # typing facts produced under the binder mention the bound variable: quantify them as well
        # well-formedness facts of heap values read under the binder hold for every instance: they are assumptions about
        # the heap (cells outside list ranges are unconstrained), not part of the clause
        facts = self.st.pc[n0:]
        del self.st.pc[n0:]
        if facts:
            self.st.assume(z3.ForAll(vars_, z3.And(facts)))
        if exists:
            return V(BOOL, z3.Exists(vars_, z3.And(guard + [body])))
        return V(BOOL, z3.ForAll(vars_, z3.Implies(z3.And(guard) if guard else z3.BoolVal(True), body)))

    def c_forall(self, node):
        return self._quant(node, False)

    def c_exists(self, node):
        return self._quant(node, True)

    def c_forall_str(self, node):
        """forall_str(lambda t: P): the bound variables range over all texts (keys of a dict)"""
        return self._quant(node, False, STR)

    def c_exists_str(self, node):
        return self._quant(node, True, STR)

    def c_implies(self, node):
        return V(BOOL, z3.Implies(self.boolean(node.args[0]), self.boolean(node.args[1])))

    def c_iff(self, node):
        return V(BOOL, self.boolean(node.args[0]) == self.boolean(node.args[1]))

    def c_ite(self, node):
        return self.ite(self.boolean(node.args[0]), self.eval(node.args[1]), self.eval(node.args[2]))

    def c_abs(self, node):
        v = lift(self.num(self.eval(node.args[0])))
        return V(v.s, z3.If(v.t >= 0, v.t, -v.t))

    def c_real(self, node):
        return V(REAL, to_real(self.num(self.eval(node.args[0]))))

    def c_trunc(self, node):
        """int(x) of a real (truncation towards zero), as the engine models the builtin"""
        v = lift(self.num(self.eval(node.args[0])))
        if v.s == INT:
            return v
        t = to_real(v)
        return V(INT, z3.If(t >= 0, z3.ToInt(t), -z3.ToInt(-t)))

    def c_parse_int(self, node):
        """int(text) as the engine models the builtin: an uninterpreted function of the text"""
        v = lift(self.eval(node.args[0]))
        return V(INT, self.eng.parse_int_fn()(v.t))

    def c_is_none(self, node):
        return V(BOOL, self.eng.equal(self.st, self.eval(node.args[0]), VNONE))

    def c_truthy(self, node):
        return V(BOOL, self.eng.truth(self.st, self.eval(node.args[0])))

    def c_val(self, node):
        """value of an optional (meaningful only where it is not None)"""
        v = self.eval(node.args[0])
        return V(v.s[1], v.t[1]) if v.s[0] in ("opt",) else (V(INT, v.t[1]) if v.s == IDS else v)

    def _alloc0(self):
        base = self.pre if self.pre is not None else self.st.old
        return base.heap.alloc

    def c_fresh(self, node):
        v = self.eval(node.args[0])
        return V(BOOL, v.t > self._alloc0())

    def c_preexisting(self, node):
        v = self.eval(node.args[0])
        return V(BOOL, z3.And(v.t >= 1, v.t <= self._alloc0()))

    def c_owner(self, node):
        v = self.eval(node.args[0])
        return V(INT, z3.Select(self.eng.arr(self.st, "obj.owner"), v.t))

    def c_isinstance(self, node):
        v = self.eval(node.args[0])
        names = [node.args[1].id] if isinstance(node.args[1], ast.Name) else [e.id for e in node.args[1].elts]
        cl = []
        for n in names:
            cl += R.subclasses(n)
        tag = z3.Select(self.eng.arr(self.st, "obj.tag"), v.t)
        return V(BOOL, z3.And(v.t != 0, z3.Or([tag == R.CLASS_IDS[c] for c in cl])))

    def _arr_pair(self, name, base=None):
        """(array now, array in the pre-state)"""
        if base is None:
            base = self.pre if self.pre is not None else self.st.old
        now = self.eng.arr(self.st, name)
        before = base.heap.arrs.get(name)
        if before is None:
            before = now if name not in self.eng.writes else None
            if before is None:
                before = self.eng.arr(base, name)
        return now, before

    def _field_names(self, spec):
        if spec in ("obj.owner", "obj.tag"):
            return [spec]
        if spec == "list":
            return ["list.len", "list.I", "list.R", "list.S", "list.nan"]
        cname, fname = spec.split(".", 1)
        owner = R.field_owner(cname, fname)
        fs = R.class_fields(cname)[fname]
        nm = f"{owner}.{fname}"
        return [nm, nm + "#n"] if fs[0] in ("opt", "ids") else [nm]

    def c_unchanged(self, node):
        return self._unchanged(node.args[0].value, [])

    def c_unchanged_except(self, node):
        objs = [self.eval(a).t for a in node.args[1:]]
        return self._unchanged(node.args[0].value, objs)

    def c_loop_lists_unchanged_except(self, node):
        """every list that existed at loop entry, except the named ones, has the length and elements it had at loop entry"""
        objs = [self.eval(a).t for a in node.args]
        return self._unchanged("list", objs, base=self.st.loop_entry)

    def c_loop_unchanged(self, node):
        return self._unchanged(node.args[0].value, [self.eval(a).t for a in node.args[1:]], base=self.st.loop_entry)

    def _unchanged(self, spec, objs, only_pre=True, base=None):
        conj = []
        for nm in self._field_names(spec):
            now, before = self._arr_pair(nm, base)
            if now.eq(before):
                continue
            o = z3.Int(f"o!{next(_fresh)}")
            g = [o != x for x in objs]
            if only_pre:
                g.append(o <= (base.heap.alloc if base is not None else self._alloc0()))
            conj.append(z3.ForAll([o], z3.Implies(z3.And(g) if g else z3.BoolVal(True), z3.Select(now, o) == z3.Select(before, o))))
        return V(BOOL, z3.And(conj) if conj else z3.BoolVal(True))

    def _outside(self, node, base):
        """unchanged_outside('Class.field', lo, hi): every object with id outside [lo, hi) keeps the field value it had (entry / loop entry)"""
        lo, hi = lift(self.eval(node.args[1])).t, lift(self.eval(node.args[2])).t
        conj = []
        for nm in self._field_names(node.args[0].value):
            now, before = self._arr_pair(nm, base)
            if now.eq(before):
                continue
            o = z3.Int(f"o!{next(_fresh)}")
            conj.append(z3.ForAll([o], z3.Implies(z3.Or(o < lo, o >= hi), z3.Select(now, o) == z3.Select(before, o))))
        return V(BOOL, z3.And(conj) if conj else z3.BoolVal(True))

    def c_unchanged_outside(self, node):
        return self._outside(node, None)

    def c_loop_unchanged_outside(self, node):
        return self._outside(node, self.st.loop_entry)

    def c_ident(self, node):
        """object identity as an integer (for block-allocation facts of deepcopy)"""
        return V(INT, self.eval(node.args[0]).t)

    def c_lists_unchanged_except(self, node):
        objs = [self.eval(a).t for a in node.args]
        return self._unchanged("list", objs)

    def c_elems_unchanged(self, node):
        """all pre-existing objects of class C keep field values: elems_unchanged('C')"""
        cname = node.args[0].value
        conj = []
        for f in R.class_fields(cname):
            conj.append(self._unchanged(f"{cname}.{f}", []).t)
        return V(BOOL, z3.And(conj))

    def c_same_fields(self, node):
        """same_fields('Class', a, b [, except 'f1', 'f2']): all declared fields of a (now) equal those of b (in old state if wrapped)"""
        cname = node.args[0].value
        a, b = self.eval(node.args[1]), self.eval(node.args[2])
        skip = [x.value for x in node.args[3:]]
        conj = []
        for f in R.class_fields(cname):
            if f in skip:
                continue
            va = self.eng.load_field(self.st, a.t, cname, f)
            vb = self.eng.load_field(self.st, b.t, cname, f)
            conj.append(self.eng.equal(self.st, va, vb))
        return V(BOOL, z3.And(conj))

    def c_store(self, node):
        m, i, v = self.eval(node.args[0]), self.eval(node.args[1]), self.eval(node.args[2])
        return V(m.s, z3.Store(m.t, lift(i).t, self.eng.coerce(v, m.s[2]).t))

    def c_str(self, node):
        out = []
        self.eng.to_str(self.st, self.eval(node.args[0]), node, lambda s, sv: out.append(sv), None)
        return out[0]

    def c_int_text(self, node):
        return V(STR, self.eng.int_text(lift(self.eval(node.args[0])).t))

    def c_real_text(self, node):
        return V(STR, self.eng.real_text(to_real(self.eval(node.args[0]))))

    def c_elems(self, node):
        lst = self.eval(node.args[0])
        return V(("map", INT, lst.s[1]), self.eng.list_elems(self.st, lst))

    def c_distinct_elems(self, node):
        lst = self.eval(node.args[0])
        ln = self.eng.list_len(self.st, lst)
        el = self.eng.list_elems(self.st, lst)
        i, j = z3.Int(f"i!{next(_fresh)}"), z3.Int(f"j!{next(_fresh)}")
        return V(BOOL, z3.ForAll([i, j], z3.Implies(z3.And(0 <= i, i < j, j < ln), z3.Select(el, i) != z3.Select(el, j))))

    def c_rsum(self, node):
        """mathematical sum of a list of reals"""
        from .externals import rsum_axioms
        lst = self.eval(node.args[0])
        return V(REAL, rsum_axioms(self.st, self.eng.list_elems(self.st, lst), self.eng.list_len(self.st, lst)))

    def c_min(self, node):
        a, b = lift(self.eval(node.args[0])), lift(self.eval(node.args[1]))
        return V(a.s, z3.If(a.t <= b.t, a.t, b.t))

    def c_max(self, node):
        a, b = lift(self.eval(node.args[0])), lift(self.eval(node.args[1]))
        return V(a.s, z3.If(a.t >= b.t, a.t, b.t))


R.ENUMS = {}
R.ENUM_NS = {}


def enum(ns, **members):
    R.ENUM_NS[ns] = dict(members)


R.enum = enum
