"""Contracts for src/gbigsmiles/system.py (ensemble generation) and the Mixture getters it reads."""
from pyvc.registry import contract, lemma, specfn
from pyvc.engine import ghost
from pyvc.sorts import BOOL, INT, REAL, STR, List, NRef, Opaque, Opt, Ref
from .common import GENERATOR

ghost("acc", REAL)                      # heavy-atom mass of the molecules yielded so far
ghost("last_gen_mol", Ref("Molecule"))  # the component whose generate() produced ...
ghost("last_gen_result", Ref("MolGen"))  # ... this molecule

for _n, _f in (("absolute_mass", "_absolute_mass"), ("relative_mass", "_relative_mass"), ("system_mass", "_system_mass")):
    contract(f"mixture.Mixture.{_n}", is_property=True, props=["C12", "C13", "C14"],
             params=dict(self=Ref("Mixture")), returns=Opt(REAL), value=f"self.{_f}",
             ensures=[f"result == self.{_f}"], labels={f"result == self.{_f}": "getter"}, modifies=[], allocates=False)

# object invariant of a parsed System whose masses could be inferred (established by System.__init__ through
# _estimate_system_molecular_weight; monitored at run time by the C12 driver, assumed here)
specfn('''
def system_inv(s):
    return implies(s._generable, forall(lambda k: implies(0 <= k and k < len(s._molecules),
                   not is_none(s._molecules[k].mixture) and not is_none(s._molecules[k].mixture._relative_mass)
                   and not is_none(s._molecules[k].mixture._system_mass) and val(s._molecules[k].mixture._relative_mass) >= 0)))
''')

_SMASS = {"result == sysmass(self)": "the-system-mass-is-the-first-components",
          "forall(lambda k: implies(0 <= k and k < len(self._molecules), result - val(self._molecules[k].mixture._system_mass) <= 0.00000001))": "no-component-claims-a-smaller-system-mass",
          "self._generable and len(self._molecules) >= 1": "only-for-a-generable-non-empty-system"}
contract("system.System.system_mass", is_property=True,
         props=["C13", "C12"], params=dict(self=Ref("System")), returns=REAL,
         requires=["system_inv(self)"],
         ensures=list(_SMASS), labels=_SMASS, raises_may={"ValueError": "True", "RuntimeError": "True"}, modifies=[], allocates=False,
         loops={1: dict(anchor="mol in self._molecules", allocates=False,
                        inv=["forall(lambda k: implies(0 <= k and k < _i1, system_mass - val(self._molecules[k].mixture._system_mass) <= 0.00000001))"])})

specfn('''
def mol_wellposed(m):
    return forall(lambda k: implies(0 <= k and k < len(m._elements) and isinstance(m._elements[k], Stochastic), wellposed_s(m._elements[k])))
''')
specfn('''
def open_after_element(e, m, had_prefix):
    return (implies(isinstance(e, Stochastic) and e.right_terminal.descriptor == '', len(m.bond_descriptors) == 0)
            and implies(isinstance(e, SmilesToken), len(m.bond_descriptors) == len(e.bond_descriptors) - ite(had_prefix, 1, 0)))
''')
_MG = {
    "open_after_element(self._elements[len(self._elements) - 1], result, len(self._elements) > 1 or not is_none(prefix))": "open-descriptors-are-those-the-last-element-leaves",
    "molgen_wf(result)": "returns-a-well-formed-generator-owned-molecule",
    "last_gen_mol is self and last_gen_result is result": "ghost-records-the-component",
    "acc == old(acc)": "accumulated-mass-untouched",
}
_MG_GHOSTS = ["ghost.last_gen_mol", "ghost.last_gen_result", "ghost.choices", "ghost.last_p", "ghost.last_n", "ghost.last_pick", "ghost.last_rng",
              "ghost.last_cand", "ghost.last_norm", "ghost.draws", "ghost.last_draw", "ghost.last_draw_rng", "ghost.last_draw_family", "ghost.last_draw_p1", "ghost.last_draw_p2",
              "ghost.units", "ghost.mass_after", "ghost.open_after", "ghost.bonds", "ghost.bond_a", "ghost.bond_b", "ghost.bond_t", "ghost.at_site_choices", "ghost.d2_token"]
_MG_LOOP_GHOSTS = [g for g in _MG_GHOSTS if g not in ("ghost.last_gen_mol", "ghost.last_gen_result")]
# the growing molecule changes identity from element to element (capping works on a deep copy), so the frame is stated by ownership: among the objects that exist
# when the fold starts, only generator-owned ones change (the incoming prefix and what hangs on it); the notation is never written
_MG_OWNED = ["MolGen._mol@GEN", "MolGen.graph@GEN", "list@GEN", "BondDescriptor.weight@GEN", "BondDescriptor.transitions@GEN", "NxGraph.val@GEN"]
contract("molecule.Molecule.generate",
         props=["C06", "C13", "C04"], params=dict(self=Ref("Molecule"), prefix=NRef("MolGen"), rng=GENERATOR), defaults={"prefix": None, "rng": None},
         returns=Ref("MolGen"),
         # the fold of element.generate over the elements (Stochastic.generate / SmilesToken.generate, both proved).  Every stochastic element is well posed (real
         # precondition: capping need not terminate otherwise); a molecule has at least one element (object invariant of parsed molecules, assumed)
         requires=["implies(not is_none(prefix), molgen_wf(prefix))",
                   "mol_wellposed(self)"],
         assumes=["len(self._elements) >= 1", "owner(self) == NOTATION and owner(self._elements) == NOTATION"],
         ensures=list(_MG), labels=_MG,
         ghost_on_return=["last_gen_mol = self", "last_gen_result = result"],
         # the representation invariant after an element is the callee's own postcondition: its proof needs no other quantified fact
         uses={"loop1:3": ["Stochastic.generate:returns-a-well-formed-molecule", "SmilesToken.generate:returns-a-well-formed-molecule"]},
         raises_may={"RuntimeError": "True", "ValueError": "True", "IndexError": "True", "TypeError": "True", "NotImplementedError": "True", "Exception": "True"},
         modifies=_MG_OWNED + _MG_GHOSTS,
         loops={1: dict(anchor="element in self._elements", locals={"my_mol": NRef("MolGen")},
                        modifies=_MG_OWNED + _MG_LOOP_GHOSTS,
                        inv=["implies(_i1 == 0, my_mol is prefix)", "implies(_i1 > 0, not is_none(my_mol))",
                             "implies(_i1 > 0, open_after_element(self._elements[_i1 - 1], my_mol, _i1 > 1 or not is_none(prefix)))",
                             "implies(not is_none(my_mol), molgen_wf(my_mol))"])})

contract("core.BigSMILESbase.generate", props=["C13", "C15"],
         params=dict(self=Ref("System|Stochastic|SmilesToken|Molecule"), prefix=NRef("MolGen"), rng=GENERATOR), defaults={"prefix": None, "rng": None},
         returns=None,
         ensures=["implies(isinstance(self, System), self._generable)",
                  "implies(isinstance(self, Stochastic), stoch_gen_ok(self))",
                  "implies(isinstance(self, SmilesToken), token_gen_ok(self))",
                  "implies(isinstance(self, Molecule), mol_gen_ok(self))",
                  "implies(not is_none(prefix), len(prefix.bond_descriptors) == 1)"],
         labels={"implies(isinstance(self, System), self._generable)": "refuses-what-is-not-generable",
                 "implies(isinstance(self, Stochastic), stoch_gen_ok(self))": "refuses-a-stochastic-object-with-a-negative-weight-or-without-distribution",
                 "implies(isinstance(self, SmilesToken), token_gen_ok(self))": "refuses-a-token-with-a-negative-weight",
                 "implies(isinstance(self, Molecule), mol_gen_ok(self))": "refuses-a-molecule-with-a-non-generable-element",
                 "implies(not is_none(prefix), len(prefix.bond_descriptors) == 1)": "refuses-a-prefix-without-exactly-one-open-descriptor"},
         raises_may={"RuntimeError": "True"}, modifies=[], allocates=False)

_PINNED = "forall(lambda k: implies(0 <= k and k < len(self._molecules), sel_p[k] * sel_norm == val(self._molecules[k].mixture._relative_mass)))"

_YIELD = {
    "self._generable": "only-a-generable-system-yields",
    "len(yielded.bond_descriptors) == 0": "yields-fully-generated-molecules",
    "last_gen_result is yielded and 0 <= last_pick_idx and last_pick_idx < len(self._molecules) and self._molecules[last_pick_idx] is last_gen_mol": "yielded-molecule-is-an-instance-of-the-picked-component",
    "acc - old(acc) < sysmass(self)": "every-molecule-is-yielded-while-the-mass-so-far-is-below-the-system-mass",
    # C14, pinned: what the code does at the selection step (the declared MASS fraction is the per-MOLECULE probability).  This is the
    # recorded deviation (KNOWN_FINDINGS.txt); the non-lemma below shows that the required law does not follow from it.
    _PINNED: "selection-probability-is-the-declared-mass-fraction[pinned-known-finding]",
    "sel_n == len(self._molecules) and sel_rng == rng": "component-drawn-among-all-components-with-the-supplied-generator",
}
# parsed systems belong to the notation (object invariant, assumed like stoch_inv): the system, its component list, the components and their element lists
_SYS_NOTATION = ("owner(self) == NOTATION and owner(self._molecules) == NOTATION and forall(lambda j: implies(0 <= j and j < len(self._molecules), "
                 "owner(self._molecules[j]) == NOTATION and owner(self._molecules[j]._elements) == NOTATION))")
_ALL_WELLPOSED = "forall(lambda j: implies(0 <= j and j < len(self._molecules), mol_wellposed(self._molecules[j])))"
ghost("last_pick_idx", INT)
ghost("sel_p", ("map", INT, REAL))      # probability vector of the last COMPONENT selection (later picks inside Molecule.generate overwrite last_p)
ghost("sel_n", INT)
ghost("sel_rng", GENERATOR)
ghost("sel_norm", REAL)

contract("system.System.generator", is_property=True, props=["C13", "C14"],
         params=dict(self=Ref("System"), rng=GENERATOR), returns=None,
         # every component is well posed (every end group of its stochastic objects is a leaf): the precondition of generation itself (C06)
         requires=["system_inv(self)", "forall(lambda j: implies(0 <= j and j < len(self._molecules), mol_wellposed(self._molecules[j])))"],
         assumes=[_SYS_NOTATION], allocs_owner="LOCAL",
         yield_ensures=list(_YIELD),
         ghost_on_yield=["acc = acc + mass(yielded._mol)"],
         ensures=["acc - old(acc) >= sysmass(self)", "self._generable"],
         labels=dict(_YIELD, **{"acc - old(acc) >= sysmass(self)": "stops-only-when-the-system-mass-is-reached", "self._generable": "ran-only-if-generable"}),
         raises_may={"RuntimeError": "True", "ValueError": "True", "TypeError": "True", "Exception": "True"},
         ghost_at={"mol_idx = rng.choice(range(len(relative_fractions)), p=relative_fractions / np.sum(relative_fractions))": ["last_pick_idx = mol_idx", "sel_p = last_p", "sel_n = last_n", "sel_rng = last_rng", "sel_norm = last_norm"]},
         ghost_before={"mol_idx = rng.choice(range(len(relative_fractions)), p=relative_fractions / np.sum(relative_fractions))": ["last_norm = rsum(relative_fractions)"]},
         clause_props={_YIELD[_PINNED]: ["C14"], "component-drawn-among-all-components-with-the-supplied-generator": ["C14", "C13"], "cover": ["C13", "C14"]},
         modifies=["ghost.acc", "ghost.last_pick_idx", "ghost.sel_p", "ghost.sel_n", "ghost.sel_rng", "ghost.sel_norm", "ghost.last_gen_mol", "ghost.last_gen_result", "ghost.choices", "ghost.last_p", "ghost.last_n", "ghost.last_pick",
                   "ghost.last_rng", "ghost.last_cand", "ghost.last_norm", "ghost.draws", "ghost.last_draw", "ghost.last_draw_rng", "ghost.last_draw_family", "ghost.last_draw_p1", "ghost.last_draw_p2", "ghost.units",
                   "ghost.mass_after", "ghost.open_after", "ghost.bonds", "ghost.bond_a", "ghost.bond_b", "ghost.bond_t", "ghost.at_site_choices", "ghost.d2_token"] + _MG_OWNED,
         loops={1: dict(anchor="generated_total_mass < self.system_mass", modifies=list(_MG_OWNED),
                        ghost_modifies=["acc", "last_pick_idx", "sel_p", "sel_n", "sel_rng", "sel_norm", "last_gen_mol", "last_gen_result", "choices", "last_p", "last_n", "last_pick", "last_rng", "last_cand",
                                        "last_norm", "draws", "last_draw", "last_draw_rng", "last_draw_family", "last_draw_p1", "last_draw_p2", "units", "mass_after", "open_after", "bonds", "bond_a", "bond_b", "bond_t",
                                        "at_site_choices", "d2_token"],
                        inv=["self._generable", _ALL_WELLPOSED, "generated_total_mass == acc - old(acc)", "fresh(relative_fractions)",
                             "len(relative_fractions) == len(self._molecules)",
                             "forall(lambda k: implies(0 <= k and k < len(relative_fractions), relative_fractions[k] == val(self._molecules[k].mixture._relative_mass)))"])})


# ---- single-molecule generation ----------------------------------------------------------------------------------------------
_GEN = {
    "self._generable": "refuses-a-system-that-is-not-generable",
    "len(result.bond_descriptors) == 0": "returns-a-fully-generated-molecule",
    "last_gen_result is result and 0 <= last_pick_idx and last_pick_idx < len(self._molecules) and self._molecules[last_pick_idx] is last_gen_mol": "of-the-picked-component",
    _PINNED: "selection-probability-is-the-declared-mass-fraction[pinned-known-finding]",
}
contract("system.System.generate", props=["C13", "C14", "C15"],
         params=dict(self=Ref("System"), prefix=NRef("MolGen"), rng=GENERATOR), defaults={"prefix": None, "rng": None},
         returns=Ref("MolGen"), requires=["system_inv(self)", "forall(lambda j: implies(0 <= j and j < len(self._molecules), mol_wellposed(self._molecules[j])))"],
         assumes=[_SYS_NOTATION], allocs_owner="LOCAL",
         ensures=list(_GEN), labels=_GEN,
         raises_may={"RuntimeError": "True", "ValueError": "True", "TypeError": "True", "Exception": "True"},
         ghost_at={"mol_idx = rng.choice(range(len(relative_fractions)), p=relative_fractions / np.sum(relative_fractions))": ["last_pick_idx = mol_idx", "sel_p = last_p", "sel_n = last_n", "sel_rng = last_rng", "sel_norm = last_norm"]},
         ghost_before={"mol_idx = rng.choice(range(len(relative_fractions)), p=relative_fractions / np.sum(relative_fractions))": ["last_norm = rsum(relative_fractions)"]},
         clause_props={_GEN[_PINNED]: ["C14"], "refuses-a-system-that-is-not-generable": ["C13", "C15"], "cover": ["C13", "C14", "C15"]},
         modifies=["ghost.acc", "ghost.last_pick_idx", "ghost.sel_p", "ghost.sel_n", "ghost.sel_rng", "ghost.sel_norm", "ghost.last_gen_mol", "ghost.last_gen_result", "ghost.choices", "ghost.last_p", "ghost.last_n", "ghost.last_pick",
                   "ghost.last_rng", "ghost.last_cand", "ghost.last_norm", "ghost.draws", "ghost.last_draw", "ghost.last_draw_rng", "ghost.units",
                   "ghost.mass_after", "ghost.open_after", "ghost.bonds", "ghost.bond_a", "ghost.bond_b", "ghost.bond_t", "ghost.at_site_choices", "ghost.d2_token",
                   "ghost.last_draw_family", "ghost.last_draw_p1", "ghost.last_draw_p2"] + _MG_OWNED)

# C14: the required law (mass shares converge to the declared fractions  <=>  p_i * M_i * f_j == p_j * M_j * f_i) does NOT follow from
# the pinned selection law p_i = f_i / sum(f): z3 must find a counterexample (two components, different molecule masses).
lemma("C14_required_law_does_not_follow_from_pinned_selection", dict(f1=REAL, f2=REAL, m1=REAL, m2=REAL, p1=REAL, p2=REAL),
      "p1 * m1 * f2 == p2 * m2 * f1",
      hyps=["f1 > 0 and f2 > 0 and m1 > 0 and m2 > 0", "p1 * (f1 + f2) == f1 and p2 * (f1 + f2) == f2"],
      props=["C14"], expect_refuted=True,
      note="documents the open finding C14/...[p-equals-mass-fraction] formally: with p = f / sum(f) the renewal-reward condition fails unless the masses are equal")
lemma("C14_pinned_selection_is_right_for_equal_masses", dict(f1=REAL, f2=REAL, m=REAL, p1=REAL, p2=REAL),
      "p1 * m * f2 == p2 * m * f1",
      hyps=["f1 > 0 and f2 > 0 and m > 0", "p1 * (f1 + f2) == f1 and p2 * (f1 + f2) == f2"], props=["C14"])


# ---- System.__init__: the splitting loop terminates (C15: "parsing any string terminates"; this loop did not, before fix 357d244) ----------------
contract("molecule.Molecule.__init__", trusted=True,
         why_trusted="string surgery of the molecule parser (outside the engine's reach; bounded C01 / C02 / C15 drivers); here only: it returns or raises",
         props=["C15"], params=dict(self=Ref("Molecule"), big_smiles_ext=STR, res_id_prefix=INT), defaults={"res_id_prefix": 0}, returns=None,
         ensures=[], raises_may={"RuntimeError": "True", "ValueError": "True", "IndexError": "True", "TypeError": "True", "Exception": "True"}, modifies=[])
# residues of a molecule / a system: the elements' (molecules') residue lists appended in written order into a fresh list.  Only freshness and "every entry is a token"
# are stated: the callers use the length for residue numbering (the count itself is a fold that no clause here pins down: bounded C05 / C06 drivers)
_MRES = {"fresh(result)": "a-fresh-list"}
contract("molecule.Molecule.residues", is_property=True,
         props=["C05", "C15"], params=dict(self=Ref("Molecule")), returns=List(Ref("SmilesToken")), ensures=list(_MRES), labels=_MRES, modifies=[], allocates=True,
         loops={1: dict(anchor="element in self._elements", locals={"residues": List(Ref("SmilesToken"))}, stable=["residues"], modifies=["list@residues"],
                        inv=["fresh(residues)"])})
contract("system.System.residues", is_property=True,
         props=["C05"], params=dict(self=Ref("System")), returns=List(Ref("SmilesToken")), ensures=list(_MRES), labels=_MRES, modifies=[], allocates=True,
         loops={1: dict(anchor="mol in self._molecules", locals={"residues": List(Ref("SmilesToken"))}, stable=["residues"], modifies=["list@residues"],
                        inv=["fresh(residues)"])})
contract("system._estimate_system_molecular_weight", trusted=True,
         why_trusted="the mass inference (five loops over the components, Mixture setters): C12's bounded driver with an independent solver; here only: it returns a flag or raises",
         props=["C12"], params=dict(molecules=List(Ref("Molecule")), system_molweight=Opt(REAL)), returns=BOOL, ensures=[],
         raises_may={"RuntimeError": "True", "ZeroDivisionError": "True", "TypeError": "True"},
         modifies=["Molecule.mixture", "Mixture._absolute_mass", "Mixture._relative_mass", "Mixture._system_mass"])
_SI = {"len(self._molecules) >= 0": "returns"}
contract("system.System.__init__", props=["C15"],
         params=dict(self=Ref("System"), big_smiles_ext=STR, system_molweight=Opt(REAL)), defaults={"system_molweight": None}, returns=None,
         ensures=list(_SI), labels=_SI,
         raises_may={"RuntimeError": "True", "ValueError": "True", "IndexError": "True", "TypeError": "True", "ZeroDivisionError": "True", "Exception": "True"},
         modifies=["System._raw_text@self", "System._res_id_prefix@self", "System._molecules@self", "System._generable@self",
                   "Molecule.mixture", "Mixture._absolute_mass", "Mixture._relative_mass", "Mixture._system_mass"],
         clause_props={"variant": ["C15"], "cover": ["C15"]},
         loops={1: dict(anchor="text.find('.|') >= 0", decreases="len(text)", modifies=["list@self._molecules"],
                        inv=["fresh(self._molecules) and self._molecules is at_loop_entry(self._molecules)"])})
