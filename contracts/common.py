"""Class / field sort declarations, ghost state and uninterpreted functions shared by all contract files.

The repository has no type annotations; these declarations are assumptions that the run-time monitor checks
against live values on the explored scope (DESIGN 2.3).
"""
from pyvc.registry import cls, module_global
from pyvc.engine import ghost
from pyvc.externals import NpList
from pyvc.sorts import BOOL, IDS, INT, REAL, STR, Enum, List, NList, NRef, Opaque, Opt, Ref, StrEnum
from pyvc.specs import enum, ufunc
import pyvc.registry as R

BT = Enum("BondType")
# class invariant of BondDescriptor (established by __init__, checked by the monitor): descriptor is one of these
SYM = StrEnum("Symbol", "", "$", "<", ">")
# rdkit.Chem.rdchem.BondType values used by the repository (int(BondType.X))
enum("BT", UNSPECIFIED=0, SINGLE=1, DOUBLE=2, TRIPLE=3, QUADRUPLE=4, ONEANDAHALF=7)

cls("list", "builtins")
cls("BigSMILESbase", "core")
R.CLASSES["BigSMILESbase"]["abstract"] = True

cls("BondDescriptor", "bond", bases=["BigSMILESbase"],
    _raw_text=STR, descriptor=SYM, descriptor_id=IDS, descriptor_num=INT, weight=REAL,
    transitions=("list", REAL, True, "np"), preceding_characters=STR, bond_type=BT, bond_stereo=Enum("BondStereo"),
    atom_bonding_to=Opt(INT), node_idx=INT)

cls("Atom", "atom", bases=["BigSMILESbase"], _raw_text=STR)

cls("SmilesToken", "token", bases=["BigSMILESbase"],
    _raw_text=STR, res_id=INT, bond_descriptors=List(Ref("BondDescriptor")), atoms=List(Ref("Atom")),
    elements=Opaque("ElementSeq"))

cls("Distribution", "distribution", bases=["BigSMILESbase"], _raw_text=STR, _distribution=Opaque("ScipyDist", True))
for _n, _f in (("FlorySchulz", dict(_a=REAL)), ("SchulzZimm", dict(_Mw=REAL, _Mn=REAL, _z=REAL)),
               ("Gauss", dict(_mu=REAL, _sigma=REAL)), ("Uniform", dict(_low=REAL, _high=REAL)),
               ("LogNormal", dict(_M=REAL, _D=REAL)), ("Poisson", dict(_N=REAL))):
    cls(_n, "distribution", bases=["Distribution"], **_f)
R.CLASSES["Distribution"]["abstract"] = True
for _n in ("FlorySchulz", "SchulzZimm", "Gauss", "Uniform", "LogNormal", "Poisson"):
    R.CLASSES[_n]["closed"] = True          # all instance attributes are declared: reading any other attribute is an AttributeError

cls("Stochastic", "stochastic", bases=["BigSMILESbase"],
    _raw_text=STR, _generable=BOOL, bond_descriptors=List(Ref("BondDescriptor")),
    left_terminal=Ref("BondDescriptor"), right_terminal=Ref("BondDescriptor"),
    repeat_tokens=List(Ref("SmilesToken")), repeat_bonds=List(Ref("BondDescriptor")), repeat_bond_token_idx=List(INT),
    end_tokens=List(Ref("SmilesToken")), end_bonds=List(Ref("BondDescriptor")), end_bond_token_idx=List(INT),
    distribution=NRef("Distribution"))

cls("Mixture", "mixture", bases=["BigSMILESbase"],
    _raw_text=STR, _absolute_mass=Opt(REAL), _relative_mass=Opt(REAL), _system_mass=Opt(REAL))

cls("Molecule", "molecule", bases=["BigSMILESbase"],
    _raw_text=STR, _elements=List(Ref("SmilesToken|Stochastic")), mixture=NRef("Mixture"))

cls("System", "system", bases=["BigSMILESbase"],
    _raw_text=STR, _res_id_prefix=INT, _molecules=List(Ref("Molecule")), _generable=BOOL)

cls("NxGraph", "networkx", val=Opaque("GraphVal"))
cls("EditableMol", "rdkit", val=Opaque("Mol"))
cls("MolGen", "mol_gen",
    bond_descriptors=List(Ref("BondDescriptor")), graph=Ref("NxGraph"), _mol=Opaque("Mol"))

cls("RememberAdd", "mol_prob", _value=REAL, _previous=REAL)

GENERATOR = Opaque("Generator")

# ghost state (DESIGN 2.4)
ghost("choices", INT)                        # number of rng.choice calls so far
ghost("last_p", ("map", INT, REAL))          # probability vector handed to the last rng.choice
ghost("last_cand", ("map", INT, INT))     # candidate values handed to the last rng.choice
ghost("last_n", INT)                         # its length
ghost("last_norm", REAL)                     # common divisor of the last probability vector (witness of proportionality)
ghost("last_pick", INT)                      # index picked
ghost("last_rng", GENERATOR)                 # generator object used
ghost("draws", INT)                          # number of draw_mw calls
ghost("last_draw", REAL)                     # value of the last draw
ghost("last_draw_rng", GENERATOR)
ghost("last_draw_family", INT)               # law of the last draw: LAW.NORM / UNIFORM / POISSON / FS / SZ / LN ...
ghost("last_draw_p1", REAL)                  # ... and the two parameters it was sampled with
ghost("last_draw_p2", REAL)
ghost("units", INT)                          # repeat units added by the current stochastic object
ghost("mass_after", ("map", INT, REAL))      # heavy-atom mass of the growing molecule after q units
ghost("open_after", ("map", INT, INT))       # open descriptors after q units
ghost("bonds", INT)                          # number of AddBond events
ghost("bond_a", ("map", INT, INT))           # q-th AddBond: first atom, second atom, bond type
ghost("bond_b", ("map", INT, INT))
ghost("bond_t", ("map", INT, INT))

# uninterpreted functions of RDKit / networkx values (assumed contracts in externals_chem.py)
ufunc("mass", [Opaque("Mol")], REAL)         # rdDescriptors.HeavyAtomMolWt
ufunc("natoms", [Opaque("Mol")], INT)
ufunc("combine", [Opaque("Mol"), Opaque("Mol")], Opaque("Mol"))
ufunc("addbond", [Opaque("Mol"), INT, INT, INT], Opaque("Mol"))
ufunc("sanitized", [Opaque("Mol")], Opaque("Mol"))
ufunc("gnodes", [Opaque("GraphVal")], INT)
ufunc("gedges", [Opaque("GraphVal")], INT)
ufunc("gcomps", [Opaque("GraphVal")], INT)
ufunc("gunion", [Opaque("GraphVal"), Opaque("GraphVal")], Opaque("GraphVal"))
ufunc("gaddedge", [Opaque("GraphVal"), INT, INT, INT], Opaque("GraphVal"))

import z3 as _z3
from pyvc.engine import V as _V
for _n, _v in dict(UNSPECIFIED=0, SINGLE=1, DOUBLE=2, TRIPLE=3, QUADRUPLE=4, ONEANDAHALF=7).items():
    R.NAME_CONSTS[f"rc.BondType.{_n}"] = _V(BT, _z3.IntVal(_v))
R.NAME_CONSTS["rc.BondStereo.STEREOANY"] = _V(Enum("BondStereo"), _z3.IntVal(1))

from pyvc.registry import specfn as _specfn
# the one system mass: the first component's (System.system_mass checks that no component claims a smaller one)
_specfn('''
def sysmass(s):
    return val(s._molecules[0].mixture._system_mass)
''')
