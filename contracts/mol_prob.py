"""Contracts for the kernels of src/gbigsmiles/mol_prob.py (C19): the mass accumulator whose two ends are the interval handed to prob_mw."""
from pyvc.registry import contract
from pyvc.sorts import REAL, Ref

_IA = {"result is self": "in-place",
       "self._previous == old(self._value) and self._value == old(self._value) + other": "interval-moves-up-by-the-added-mass:previous-is-the-old-value"}
contract("mol_prob.RememberAdd.__iadd__", props=["C19"],
         params=dict(self=Ref("RememberAdd"), other=REAL), returns=Ref("RememberAdd"),
         ensures=list(_IA), labels=_IA, modifies=["RememberAdd._value@self", "RememberAdd._previous@self"], allocates=False)
_IN = {"self._value == value and self._previous == 0.0": "starts-as-the-interval-from-zero"}
contract("mol_prob.RememberAdd.__init__", props=["C19"],
         params=dict(self=Ref("RememberAdd"), value=REAL), returns=None,
         ensures=list(_IN), labels=_IN, modifies=["RememberAdd._value@self", "RememberAdd._previous@self"], allocates=False)
