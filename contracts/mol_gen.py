"""Contracts for src/gbigsmiles/mol_gen.py"""
from pyvc.registry import contract, specfn
from pyvc.sorts import BOOL, INT, REAL, List, NRef, Opaque, Ref

# representation invariant of a MolGen (C04 / C05 / C10): its open descriptors are distinct, generator-owned objects that point
# at atoms of its molecule and at nodes of its residue graph; the residue graph is a tree
specfn('''
def molgen_wf(m):
    return (owner(m) == GEN and owner(m.bond_descriptors) == GEN and owner(m.graph) == GEN
            and forall(lambda k: implies(0 <= k and k < len(m.bond_descriptors),
                                         owner(m.bond_descriptors[k]) == GEN and not is_none(m.bond_descriptors[k].atom_bonding_to)
                                         and 0 <= val(m.bond_descriptors[k].atom_bonding_to) and val(m.bond_descriptors[k].atom_bonding_to) < natoms(m._mol)
                                         and 0 <= m.bond_descriptors[k].node_idx and m.bond_descriptors[k].node_idx < gnodes(m.graph.val)))
            and distinct_elems(m.bond_descriptors)
            and gcomps(m.graph.val) == 1 and gedges(m.graph.val) == gnodes(m.graph.val) - 1 and gnodes(m.graph.val) >= 1)
''')

specfn('''
def src_index(r, j):
    return ite(r < j, r, r + 1)
''')

specfn('''
def desc_wf(m, d):
    return (owner(d) == GEN and not is_none(d.atom_bonding_to) and 0 <= val(d.atom_bonding_to) and val(d.atom_bonding_to) < natoms(m._mol)
            and 0 <= d.node_idx and d.node_idx < gnodes(m.graph.val))
''')

_I = "self_bond_idx"
_J = "other_bond_idx"

_ATTACH_ENS = {
    "result is self": "returns-self",
    "len(self.bond_descriptors) == old(len(self.bond_descriptors)) + old(len(other.bond_descriptors)) - 2": "two-descriptors-consumed",
    # the descriptors of the growing molecule that were not used are kept, in order, untouched
    "forall(lambda k: implies(0 <= k and k < self_bond_idx, self.bond_descriptors[k] is old(self.bond_descriptors[k])))": "kept-before",
    "forall(lambda k: implies(self_bond_idx <= k and k < old(len(self.bond_descriptors)) - 1, self.bond_descriptors[k] is old(self.bond_descriptors[k + 1])))": "kept-after",
    # the unused descriptors of the attached fragment arrive as fresh copies, atom and node shifted (absolute index k in the result)
    "forall(lambda k: implies(old(len(self.bond_descriptors)) - 1 <= k and k < len(self.bond_descriptors), "
    "fresh(self.bond_descriptors[k]) and owner(self.bond_descriptors[k]) == GEN and not is_none(self.bond_descriptors[k].atom_bonding_to) and "
    "val(self.bond_descriptors[k].atom_bonding_to) == old(val(other.bond_descriptors[src_index(k - (len(self.bond_descriptors) - 1), other_bond_idx)].atom_bonding_to)) + old(natoms(self._mol)) and "
    "self.bond_descriptors[k].node_idx == old(other.bond_descriptors[src_index(k - (len(self.bond_descriptors) - 1), other_bond_idx)].node_idx) + old(gnodes(self.graph.val)) and "
    "self.bond_descriptors[k].descriptor == old(other.bond_descriptors[src_index(k - (len(self.bond_descriptors) - 1), other_bond_idx)].descriptor) and "
    "self.bond_descriptors[k].descriptor_id == old(other.bond_descriptors[src_index(k - (len(self.bond_descriptors) - 1), other_bond_idx)].descriptor_id) and "
    "self.bond_descriptors[k].bond_type == old(other.bond_descriptors[src_index(k - (len(self.bond_descriptors) - 1), other_bond_idx)].bond_type) and "
    "self.bond_descriptors[k].weight == old(other.bond_descriptors[src_index(k - (len(self.bond_descriptors) - 1), other_bond_idx)].weight)))": "others-copied-shifted",
    # C04: exactly one AddBond, between the atoms of the two consumed descriptors (second shifted), with their common bond order,
    #      and the two descriptors were compatible
    "bonds == old(bonds) + 1": "one-bond",
    "bond_a[old(bonds)] == old(val(self.bond_descriptors[self_bond_idx].atom_bonding_to))": "bond-first-atom",
    "bond_b[old(bonds)] == old(val(other.bond_descriptors[other_bond_idx].atom_bonding_to)) + old(natoms(self._mol))": "bond-second-atom-shifted",
    "bond_t[old(bonds)] == old(self.bond_descriptors[self_bond_idx].bond_type) and bond_t[old(bonds)] == old(other.bond_descriptors[other_bond_idx].bond_type)": "bond-order",
    "old(compat_spec(other.bond_descriptors[other_bond_idx], self.bond_descriptors[self_bond_idx]))": "were-compatible",
    # C05: the molecule is the combination of both parts plus that one bond; nothing else
    "self._mol == addbond(combine(old(self._mol), old(other._mol)), bond_a[old(bonds)], bond_b[old(bonds)], bond_t[old(bonds)])": "molecule-is-combination-plus-one-bond",
    "natoms(self._mol) == old(natoms(self._mol)) + old(natoms(other._mol)) and mass(self._mol) == old(mass(self._mol)) + old(mass(other._mol))": "atoms-and-mass-add-up",
    "gnodes(self.graph.val) == old(gnodes(self.graph.val)) + old(gnodes(other.graph.val))": "residues-add-up",
    "gcomps(self.graph.val) == 1 and gedges(self.graph.val) == gnodes(self.graph.val) - 1": "residue-graph-stays-a-tree",
    "unchanged('BondDescriptor.atom_bonding_to') and unchanged('BondDescriptor.node_idx') and unchanged('obj.owner')": "old-descriptors-untouched",
    # the representation invariant of the result, piece by piece (kept-before / kept-after / copied segments), then as a whole
    "forall(lambda k: implies(0 <= k and k < old(len(self.bond_descriptors)) - 1, desc_wf(self, self.bond_descriptors[k]) and preexisting(self.bond_descriptors[k])))": "wf-kept",
    "forall(lambda k: implies(old(len(self.bond_descriptors)) - 1 <= k and k < len(self.bond_descriptors), desc_wf(self, self.bond_descriptors[k]) and fresh(self.bond_descriptors[k])))": "wf-copied",
    "forall(lambda a, b: implies(old(len(self.bond_descriptors)) - 1 <= a and a < b and b < len(self.bond_descriptors), self.bond_descriptors[a] is not self.bond_descriptors[b]))": "copies-distinct",
    "owner(self) == GEN and owner(self.bond_descriptors) == GEN and owner(self.graph) == GEN and self.bond_descriptors is old(self.bond_descriptors)": "owners",
    "forall(lambda k: implies(0 <= k and k < len(self.bond_descriptors), desc_wf(self, self.bond_descriptors[k])))": "wf-all",
    "distinct_elems(self.bond_descriptors)": "all-distinct",
    "molgen_wf(self)": "representation-invariant",
    # C10: the attached fragment is only read
    "len(other.bond_descriptors) == old(len(other.bond_descriptors)) and forall(lambda k: implies(0 <= k and k < len(other.bond_descriptors), other.bond_descriptors[k] is old(other.bond_descriptors[k])))": "fragment-list-untouched",
}

contract("mol_gen.MolGen.attach_other",
         props=["C04", "C05", "C10"],
         params=dict(self=Ref("MolGen"), self_bond_idx=INT, other=Ref("MolGen"), other_bond_idx=INT),
         returns=Ref("MolGen"),
         requires=["self is not other and self.bond_descriptors is not other.bond_descriptors and self.graph is not other.graph",
                   "0 <= self_bond_idx and 0 <= other_bond_idx",
                   "molgen_wf(self) and molgen_wf(other)",
                   "forall(lambda a, b: implies(0 <= a and a < len(self.bond_descriptors) and 0 <= b and b < len(other.bond_descriptors), self.bond_descriptors[a] is not other.bond_descriptors[b]))"],
         raises={"RuntimeError": "self_bond_idx >= len(self.bond_descriptors) or other_bond_idx >= len(other.bond_descriptors) or "
                                 "not compat_spec(other.bond_descriptors[other_bond_idx], self.bond_descriptors[self_bond_idx])"},
         ensures=list(_ATTACH_ENS), labels=_ATTACH_ENS,
         from_lemmas={"wf-kept": ["kept-before", "kept-after", "old-descriptors-untouched", "atoms-and-mass-add-up", "residues-add-up"],
                      "wf-copied": ["others-copied-shifted", "atoms-and-mass-add-up", "residues-add-up", "two-descriptors-consumed"],
                      "wf-all": ["two-descriptors-consumed", "wf-kept", "wf-copied"],
                      "all-distinct": ["two-descriptors-consumed", "kept-before", "kept-after", "wf-kept", "wf-copied", "copies-distinct"],
                      "representation-invariant": ["owners", "wf-all", "all-distinct", "residue-graph-stays-a-tree", "residues-add-up"]},
         clause_props={"molecule-is-combination-plus-one-bond": ["C05"], "atoms-and-mass-add-up": ["C05"], "residues-add-up": ["C05"],
                       "residue-graph-stays-a-tree": ["C05"], "one-bond": ["C04", "C05"], "representation-invariant": ["C04", "C05"],
                       "fragment-list-untouched": ["C10"], "old-descriptors-untouched": ["C10"], "frame": ["C10"], "frame-owner": ["C10"],
                       "cover": ["C04", "C05", "C10"]},
         modifies=["MolGen._mol", "MolGen.graph", "list", "NxGraph.val", "EditableMol.val",
                   "ghost.bonds", "ghost.bond_a", "ghost.bond_b", "ghost.bond_t"],
         writes_owner="GEN",
         # the conformer arithmetic (alignment of the fragment in space) is abstracted: it assigns only these locals and calls only
         # conformer accessors and numpy; coordinates are not part of any contract
         abstract=[dict(**{"from": "self_bond_point = self._mol.GetConformer().GetAtomPosition(self.bond_descriptors[self_bond_idx].atom_bonding_to)"},
                        until="for bd in other_bond_descriptors:",
                        havoc=["self_bond_point", "other_bond_point", "rcm", "rg2", "rg_len", "offset", "i", "old_pos", "new_pos"],
                        calls=["GetConformer", "GetAtomPosition", "SetAtomPosition", "GetNumAtoms", "zeros", "sqrt", "sum", "asarray", "range"],
                        note="conformer alignment: writes atom positions of other._mol's conformer only")],
         loops={5: dict(      # loops 1-4 are the conformer loops inside the abstracted block
             anchor="bd in other_bond_descriptors",
             modifies=["BondDescriptor.atom_bonding_to", "BondDescriptor.node_idx"],
             allocates=False,
             inv=["forall(lambda k: implies(0 <= k and k < _i5, "
                  "val(other_bond_descriptors[k].atom_bonding_to) == at_loop_entry(val(other_bond_descriptors[k].atom_bonding_to)) + current_atom_number and "
                  "not is_none(other_bond_descriptors[k].atom_bonding_to) and "
                  "other_bond_descriptors[k].node_idx == at_loop_entry(other_bond_descriptors[k].node_idx) + self_graph_len))",
                  "forall(lambda k: implies(_i5 <= k and k < len(other_bond_descriptors), "
                  "val(other_bond_descriptors[k].atom_bonding_to) == at_loop_entry(val(other_bond_descriptors[k].atom_bonding_to)) and "
                  "not is_none(other_bond_descriptors[k].atom_bonding_to) and "
                  "other_bond_descriptors[k].node_idx == at_loop_entry(other_bond_descriptors[k].node_idx)))",
                  "loop_unchanged_outside('BondDescriptor.atom_bonding_to', ident(other_bond_descriptors[0]), ident(other_bond_descriptors[0]) + len(other_bond_descriptors))",
                  "loop_unchanged_outside('BondDescriptor.node_idx', ident(other_bond_descriptors[0]), ident(other_bond_descriptors[0]) + len(other_bond_descriptors))"])})
