"""Contracts for src/gbigsmiles/mol_gen.py"""
from pyvc.registry import contract, specfn
from pyvc.sorts import BOOL, INT, REAL, List, NRef, Opaque, Ref

# representation invariant of a MolGen (C04 / C05 / C10): its open descriptors are distinct, generator-owned objects that point
# at atoms of its molecule and at nodes of its residue graph; the residue graph is a tree
specfn('''
def molgen_wf(m):
    return (owner(m) == GEN and owner(m.bond_descriptors) == GEN and owner(m.graph) == GEN
            and forall(lambda k: implies(0 <= k and k < len(m.bond_descriptors),
                                         owner(m.bond_descriptors[k]) == GEN and not is_none(m.bond_descriptors[k].atom_bonding_to)
                                         and 0 <= val(m.bond_descriptors[k].atom_bonding_to) and val(m.bond_descriptors[k].atom_bonding_to) < natoms(m._mol)
                                         and 0 <= m.bond_descriptors[k].node_idx and m.bond_descriptors[k].node_idx < gnodes(m.graph.val)))
            and distinct_elems(m.bond_descriptors)
            and gcomps(m.graph.val) == 1 and gedges(m.graph.val) == gnodes(m.graph.val) - 1 and gnodes(m.graph.val) >= 1)
''')

# invariant of a parsed token (established by SmilesToken.__init__, which is string surgery outside the engine's reach: assumed here,
# checked on every parsed token by the bounded C02 driver): its descriptors are distinct notation-owned objects, each bound to an
# atom of the token's fragment molecule
specfn('''
def token_wf(t):
    return (distinct_elems(t.bond_descriptors)
            and forall(lambda k: implies(0 <= k and k < len(t.bond_descriptors),
                                         not is_none(t.bond_descriptors[k].atom_bonding_to) and 0 <= val(t.bond_descriptors[k].atom_bonding_to)
                                         and val(t.bond_descriptors[k].atom_bonding_to) < natoms(smiles_mol(frag_text(t))))))
''')

specfn('''
def src_index(r, j):
    return ite(r < j, r, r + 1)
''')

specfn('''
def desc_wf(m, d):
    return (owner(d) == GEN and not is_none(d.atom_bonding_to) and 0 <= val(d.atom_bonding_to) and val(d.atom_bonding_to) < natoms(m._mol)
            and 0 <= d.node_idx and d.node_idx < gnodes(m.graph.val))
''')

_I = "self_bond_idx"
_J = "other_bond_idx"

_ATTACH_ENS = {
    "result is self": "returns-self",
    "len(self.bond_descriptors) == old(len(self.bond_descriptors)) + old(len(other.bond_descriptors)) - 2": "two-descriptors-consumed",
    # the descriptors of the growing molecule that were not used are kept, in order, untouched
    "forall(lambda k: implies(0 <= k and k < self_bond_idx, self.bond_descriptors[k] is old(self.bond_descriptors[k])))": "kept-before",
    "forall(lambda k: implies(self_bond_idx <= k and k < old(len(self.bond_descriptors)) - 1, self.bond_descriptors[k] is old(self.bond_descriptors[k + 1])))": "kept-after",
    # the unused descriptors of the attached fragment arrive as fresh copies, atom and node shifted (absolute index k in the result)
    "forall(lambda k: implies(old(len(self.bond_descriptors)) - 1 <= k and k < len(self.bond_descriptors), "
    "fresh(self.bond_descriptors[k]) and owner(self.bond_descriptors[k]) == GEN and not is_none(self.bond_descriptors[k].atom_bonding_to) and "
    "val(self.bond_descriptors[k].atom_bonding_to) == old(val(other.bond_descriptors[src_index(k - (len(self.bond_descriptors) - 1), other_bond_idx)].atom_bonding_to)) + old(natoms(self._mol)) and "
    "self.bond_descriptors[k].node_idx == old(other.bond_descriptors[src_index(k - (len(self.bond_descriptors) - 1), other_bond_idx)].node_idx) + old(gnodes(self.graph.val)) and "
    "self.bond_descriptors[k].descriptor == old(other.bond_descriptors[src_index(k - (len(self.bond_descriptors) - 1), other_bond_idx)].descriptor) and "
    "self.bond_descriptors[k].descriptor_id == old(other.bond_descriptors[src_index(k - (len(self.bond_descriptors) - 1), other_bond_idx)].descriptor_id) and "
    "self.bond_descriptors[k].bond_type == old(other.bond_descriptors[src_index(k - (len(self.bond_descriptors) - 1), other_bond_idx)].bond_type) and "
    "self.bond_descriptors[k].weight == old(other.bond_descriptors[src_index(k - (len(self.bond_descriptors) - 1), other_bond_idx)].weight)))": "others-copied-shifted",
    # C04: exactly one AddBond, between the atoms of the two consumed descriptors (second shifted), with their common bond order,
    #      and the two descriptors were compatible
    "bonds == old(bonds) + 1": "one-bond",
    "bond_a[old(bonds)] == old(val(self.bond_descriptors[self_bond_idx].atom_bonding_to))": "bond-first-atom",
    "bond_b[old(bonds)] == old(val(other.bond_descriptors[other_bond_idx].atom_bonding_to)) + old(natoms(self._mol))": "bond-second-atom-shifted",
    "bond_t[old(bonds)] == old(self.bond_descriptors[self_bond_idx].bond_type) and bond_t[old(bonds)] == old(other.bond_descriptors[other_bond_idx].bond_type)": "bond-order",
    "old(compat_spec(other.bond_descriptors[other_bond_idx], self.bond_descriptors[self_bond_idx]))": "were-compatible",
    # C05: the molecule is the combination of both parts plus that one bond; nothing else
    "self._mol == addbond(combine(old(self._mol), old(other._mol)), bond_a[old(bonds)], bond_b[old(bonds)], bond_t[old(bonds)])": "molecule-is-combination-plus-one-bond",
    "natoms(self._mol) == old(natoms(self._mol)) + old(natoms(other._mol)) and mass(self._mol) == old(mass(self._mol)) + old(mass(other._mol))": "atoms-and-mass-add-up",
    "gnodes(self.graph.val) == old(gnodes(self.graph.val)) + old(gnodes(other.graph.val))": "residues-add-up",
    "gcomps(self.graph.val) == 1 and gedges(self.graph.val) == gnodes(self.graph.val) - 1": "residue-graph-stays-a-tree",
    "unchanged('BondDescriptor.atom_bonding_to') and unchanged('BondDescriptor.node_idx') and unchanged('obj.owner') and unchanged('BondDescriptor.weight')": "old-descriptors-untouched",
    # the representation invariant of the result, piece by piece (kept-before / kept-after / copied segments), then as a whole
    "forall(lambda k: implies(0 <= k and k < old(len(self.bond_descriptors)) - 1, desc_wf(self, self.bond_descriptors[k]) and preexisting(self.bond_descriptors[k])))": "wf-kept",
    "forall(lambda k: implies(old(len(self.bond_descriptors)) - 1 <= k and k < len(self.bond_descriptors), desc_wf(self, self.bond_descriptors[k]) and fresh(self.bond_descriptors[k])))": "wf-copied",
    "forall(lambda a, b: implies(old(len(self.bond_descriptors)) - 1 <= a and a < b and b < len(self.bond_descriptors), self.bond_descriptors[a] is not self.bond_descriptors[b]))": "copies-distinct",
    "owner(self) == GEN and owner(self.bond_descriptors) == GEN and owner(self.graph) == GEN and self.bond_descriptors is old(self.bond_descriptors)": "owners",
    "forall(lambda k: implies(0 <= k and k < len(self.bond_descriptors), desc_wf(self, self.bond_descriptors[k])))": "wf-all",
    "distinct_elems(self.bond_descriptors)": "all-distinct",
    "molgen_wf(self)": "representation-invariant",
    # weights of the open descriptors stay non-negative (precondition of every weighted pick)
    "implies(old(weights_ok(self.bond_descriptors)) and old(weights_ok(other.bond_descriptors)), weights_ok(self.bond_descriptors))": "weights-stay-non-negative",
    # frame, as a clause (a caller only knows a callee's ensures): nothing but the growing molecule's own parts changes
    "unchanged_except('MolGen._mol', self) and unchanged_except('MolGen.graph', self) and unchanged('MolGen.bond_descriptors') and unchanged('NxGraph.val') "
    "and lists_unchanged_except(self.bond_descriptors) and unchanged('BondDescriptor.transitions') and unchanged('BondDescriptor.bond_type') "
    "and unchanged('BondDescriptor.descriptor') and unchanged('BondDescriptor.descriptor_id')": "only-the-growing-molecule-changes",
    # C10: the attached fragment is only read
    "len(other.bond_descriptors) == old(len(other.bond_descriptors)) and forall(lambda k: implies(0 <= k and k < len(other.bond_descriptors), other.bond_descriptors[k] is old(other.bond_descriptors[k])))": "fragment-list-untouched",
}

contract("mol_gen.MolGen.attach_other",
         props=["C04", "C05", "C10"],
         params=dict(self=Ref("MolGen"), self_bond_idx=INT, other=Ref("MolGen"), other_bond_idx=INT),
         returns=Ref("MolGen"),
         requires=["self is not other and self.bond_descriptors is not other.bond_descriptors and self.graph is not other.graph",
                   "0 <= self_bond_idx and 0 <= other_bond_idx",
                   "molgen_wf(self) and molgen_wf(other)",
                   "forall(lambda a, b: implies(0 <= a and a < len(self.bond_descriptors) and 0 <= b and b < len(other.bond_descriptors), self.bond_descriptors[a] is not other.bond_descriptors[b]))"],
         raises={"RuntimeError": "self_bond_idx >= len(self.bond_descriptors) or other_bond_idx >= len(other.bond_descriptors) or "
                                 "not compat_spec(other.bond_descriptors[other_bond_idx], self.bond_descriptors[self_bond_idx])"},
         ensures=list(_ATTACH_ENS), labels=_ATTACH_ENS,
         from_lemmas={"wf-kept": ["kept-before", "kept-after", "old-descriptors-untouched", "atoms-and-mass-add-up", "residues-add-up"],
                      "wf-copied": ["others-copied-shifted", "atoms-and-mass-add-up", "residues-add-up", "two-descriptors-consumed"],
                      "wf-all": ["two-descriptors-consumed", "wf-kept", "wf-copied"],
                      "all-distinct": ["two-descriptors-consumed", "kept-before", "kept-after", "wf-kept", "wf-copied", "copies-distinct"],
                      "representation-invariant": ["owners", "wf-all", "all-distinct", "residue-graph-stays-a-tree", "residues-add-up"],
                      "weights-stay-non-negative": ["two-descriptors-consumed", "kept-before", "kept-after", "others-copied-shifted", "old-descriptors-untouched"]},
         clause_props={"molecule-is-combination-plus-one-bond": ["C05"], "atoms-and-mass-add-up": ["C05"], "residues-add-up": ["C05"],
                       "residue-graph-stays-a-tree": ["C05"], "one-bond": ["C04", "C05"], "representation-invariant": ["C04", "C05"],
                       "fragment-list-untouched": ["C10"], "old-descriptors-untouched": ["C10"], "only-the-growing-molecule-changes": ["C10"], "frame": ["C10"], "frame-owner": ["C10"],
                       "cover": ["C04", "C05", "C10"]},
         # object-granular: only these cells of pre-existing objects may change (everything else written is freshly allocated)
         modifies=["MolGen._mol@self", "MolGen.graph@self", "list@self.bond_descriptors",
                   "ghost.bonds", "ghost.bond_a", "ghost.bond_b", "ghost.bond_t"],
         writes_owner="GEN", opaque_final_heap=True,
         # the conformer arithmetic (alignment of the fragment in space) is abstracted: it assigns only these locals and calls only
         # conformer accessors and numpy; coordinates are not part of any contract
         abstract=[dict(**{"from": "self_bond_point = self._mol.GetConformer().GetAtomPosition(self.bond_descriptors[self_bond_idx].atom_bonding_to)"},
                        until="for bd in other_bond_descriptors:",
                        havoc=["self_bond_point", "other_bond_point", "rcm", "rg2", "rg_len", "offset", "i", "old_pos", "new_pos"],
                        calls=["GetConformer", "GetAtomPosition", "SetAtomPosition", "GetNumAtoms", "zeros", "sqrt", "sum", "asarray", "range"],
                        note="conformer alignment: writes atom positions of other._mol's conformer only")],
         loops={5: dict(      # loops 1-4 are the conformer loops inside the abstracted block
             anchor="bd in other_bond_descriptors",
             modifies=["BondDescriptor.atom_bonding_to", "BondDescriptor.node_idx"],
             allocates=False,
             inv=["forall(lambda k: implies(0 <= k and k < _i5, "
                  "val(other_bond_descriptors[k].atom_bonding_to) == at_loop_entry(val(other_bond_descriptors[k].atom_bonding_to)) + current_atom_number and "
                  "not is_none(other_bond_descriptors[k].atom_bonding_to) and "
                  "other_bond_descriptors[k].node_idx == at_loop_entry(other_bond_descriptors[k].node_idx) + self_graph_len))",
                  "forall(lambda k: implies(_i5 <= k and k < len(other_bond_descriptors), "
                  "val(other_bond_descriptors[k].atom_bonding_to) == at_loop_entry(val(other_bond_descriptors[k].atom_bonding_to)) and "
                  "not is_none(other_bond_descriptors[k].atom_bonding_to) and "
                  "other_bond_descriptors[k].node_idx == at_loop_entry(other_bond_descriptors[k].node_idx)))",
                  "loop_unchanged_outside('BondDescriptor.atom_bonding_to', ident(other_bond_descriptors[0]), ident(other_bond_descriptors[0]) + len(other_bond_descriptors))",
                  "loop_unchanged_outside('BondDescriptor.node_idx', ident(other_bond_descriptors[0]), ident(other_bond_descriptors[0]) + len(other_bond_descriptors))"])})


# ---- MolGen.__init__: a fresh, generator-owned copy of one token (C04 / C05 / C10) ---------------------------------------------------
from pyvc.sorts import STR
from pyvc.specs import ufunc as _ufunc
_ufunc("frag_text", [Ref("SmilesToken")], STR)          # SmilesToken.generate_smiles_fragment() as a function of the token

contract("token.SmilesToken.generate_smiles_fragment", trusted=True,
         why_trusted="str.replace chains over the element list (undecided in both solvers); what is assumed: the text is a function of the token; the bounded C05 driver "
                     "checks that it parses to the token's own atoms",
         props=["C05"], params=dict(self=Ref("SmilesToken")), returns=STR, ensures=["result == frag_text(self)"], modifies=[], allocates=False)
contract("token.SmilesToken.generate_string", trusted=True,
         why_trusted="string assembly over the element list; only used for a node label here (C01 is its bounded check)",
         props=["C01"], params=dict(self=Ref("SmilesToken"), extension=BOOL), returns=STR, ensures=[], modifies=[], allocates=False)
contract("token.SmilesToken.residues", is_property=True, props=["C05"],
         params=dict(self=Ref("SmilesToken")), returns=List(Ref("SmilesToken")),
         ensures=["len(result) == 1 and result[0] is self and fresh(result)"], labels={"len(result) == 1 and result[0] is self and fresh(result)": "a-token-is-one-residue"},
         modifies=[])

_K = "0 <= k and k < len(self.bond_descriptors)"
_INIT = {
    "token_gen_ok(token)": "refuses-a-token-that-is-not-generable",
    "len(self.bond_descriptors) == len(token.bond_descriptors) and fresh(self.bond_descriptors) and owner(self.bond_descriptors) == GEN": "one-open-descriptor-per-written-descriptor-in-a-fresh-list",
    f"forall(lambda k: implies({_K}, fresh(self.bond_descriptors[k]) and owner(self.bond_descriptors[k]) == GEN))": "descriptors-are-fresh-generator-owned-copies",
    f"forall(lambda k: implies({_K}, self.bond_descriptors[k].descriptor == token.bond_descriptors[k].descriptor and "
    "self.bond_descriptors[k].descriptor_id == token.bond_descriptors[k].descriptor_id and self.bond_descriptors[k].bond_type == token.bond_descriptors[k].bond_type and "
    "self.bond_descriptors[k].weight == token.bond_descriptors[k].weight and self.bond_descriptors[k].transitions is token.bond_descriptors[k].transitions and "
    "self.bond_descriptors[k].atom_bonding_to == token.bond_descriptors[k].atom_bonding_to))": "copies-carry-the-written-symbol-id-order-weight-and-atom",
    f"forall(lambda k: implies({_K}, self.bond_descriptors[k].node_idx == 0))": "all-descriptors-belong-to-the-single-residue",
    "self._mol == smiles_mol(frag_text(token))": "molecule-is-the-token-fragment",
    "gnodes(self.graph.val) == 1 and gedges(self.graph.val) == 0 and gcomps(self.graph.val) == 1 and fresh(self.graph) and owner(self.graph) == GEN": "residue-graph-is-one-node",
    "distinct_elems(self.bond_descriptors)": "copies-distinct",
    "unchanged('BondDescriptor.node_idx') and unchanged('BondDescriptor.atom_bonding_to') and unchanged('BondDescriptor.weight') and unchanged('BondDescriptor.transitions') "
    "and lists_unchanged_except() and unchanged('obj.owner') and unchanged('SmilesToken.bond_descriptors')": "the-token-is-only-read",
    "owner(self) == GEN": "generator-owned",
    "unchanged_except('MolGen._mol', self) and unchanged_except('MolGen.graph', self) and unchanged_except('MolGen.bond_descriptors', self) and unchanged('NxGraph.val')": "no-other-molecule-changes",
    "forall(lambda k: implies(0 <= k and k < len(self.bond_descriptors), desc_wf(self, self.bond_descriptors[k])))": "wf-all",
    "molgen_wf(self)": "representation-invariant",
}
contract("mol_gen.MolGen.__init__", props=["C05", "C04", "C10"],
         params=dict(self=Ref("MolGen"), token=Ref("SmilesToken")), returns=None,
         requires=["token_wf(token)", "owner(self) == GEN"],
         raises={"RuntimeError": "not token_gen_ok(token)"},
         raises_may={"ValueError": "True"},
         ensures=list(_INIT), labels=_INIT,
         from_lemmas={"wf-all": ["one-open-descriptor-per-written-descriptor-in-a-fresh-list", "descriptors-are-fresh-generator-owned-copies",
                                 "copies-carry-the-written-symbol-id-order-weight-and-atom", "all-descriptors-belong-to-the-single-residue",
                                 "molecule-is-the-token-fragment", "residue-graph-is-one-node", "the-token-is-only-read"],
                      "representation-invariant": ["one-open-descriptor-per-written-descriptor-in-a-fresh-list", "wf-all",
                                                   "residue-graph-is-one-node", "copies-distinct", "generator-owned"]},
         clause_props={"the-token-is-only-read": ["C10"], "no-other-molecule-changes": ["C10"], "frame": ["C10"], "frame-owner": ["C10"], "descriptors-are-fresh-generator-owned-copies": ["C10", "C04", "C05"],
                       "cover": ["C05", "C04", "C10"]},
         modifies=["MolGen.bond_descriptors@self", "MolGen.graph@self", "MolGen._mol@self"],
         writes_owner="GEN", opaque_final_heap=True,
         abstract=[dict(**{"from": "atom_serial = 1"}, until=None,
                        havoc=["atom_serial", "elem_count", "atom", "monomer_info", "atom_name"],
                        calls=["GetAtoms", "AtomPDBResidueInfo", "SetMonomerInfo", "GetAtomicNum", "min", "GetPDBResidueInfo", "SetResidueName", "SetResidueNumber",
                               "SetIsHeteroAtom", "SetOccupancy", "SetTempFactor", "GetSerialNumber", "GetSymbol", "SetName", "SetSerialNumber", "ValueError"],
                        raises=["ValueError"],
                        note="PDB residue labelling of the atoms (names, serial numbers): writes RDKit atom monomer info only")],
         loops={1: dict(anchor="bd in self.bond_descriptors", modifies=["BondDescriptor.node_idx"], allocates=False,
                        inv=["forall(lambda k: implies(0 <= k and k < _i1, self.bond_descriptors[k].node_idx == 0))",
                             "loop_unchanged_outside('BondDescriptor.node_idx', ident(self.bond_descriptors[0]), ident(self.bond_descriptors[0]) + len(self.bond_descriptors))"])})
