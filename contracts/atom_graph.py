"""Contracts for the node numbering of src/gbigsmiles/stochastic_atom_graph.py (C17): node ids are `offset of the token + atom index`, with the
offsets being the running count of atoms of all tokens before it (prefix sums), separately recorded per element."""
from pyvc.registry import cls, contract, specfn
from pyvc.sorts import BOOL, INT, REAL, STR, List, NRef, Opaque, Opt, Ref, Tuple
from pyvc.specs import ufunc

cls("StochasticAtomGraph", "stochastic_atom_graph", _big_smi_mol=Ref("Molecule"), _expect_distribution=BOOL, graph=Opaque("MultiDiGraph", True),
    node_counter=INT, node_offset_list=List(List(INT)))

NODES = List(Opaque("NodeDict"))
MW = Opaque("MwInfo", True)

contract("stochastic_atom_graph.StochasticAtomGraph._get_token_nodes", trusted=True,
         why_trusted="builds one node dictionary per atom of the RDKit molecule of the token's fragment (RDKit atom / bond iteration, dictionaries: not modelled); assumed: "
                     "one node per atom of that molecule. The bounded C17 driver compares every node with an independent construction",
         props=["C17"], params=dict(self=Ref("StochasticAtomGraph"), token=Ref("SmilesToken"), mw_info=None), returns=NODES,
         ensures=["len(result) == natoms(smiles_mol(frag_text(token))) and fresh(result)"], modifies=[])
contract("stochastic_atom_graph.StochasticAtomGraph._add_nodes_to_graph", trusted=True,
         why_trusted="adds node `node_counter + atom index` per node and the static edges between them to the networkx graph (dictionary / networkx calls: not modelled); "
                     "writes the graph only",
         props=["C17"], params=dict(self=Ref("StochasticAtomGraph"), nodes=NODES), returns=None, ensures=[], raises_may={"Exception": "True"}, modifies=[], allocates=False)
contract("stochastic_atom_graph.StochasticAtomGraph._add_stochastic_bonds", trusted=True,
         why_trusted="edge construction over networkx (bounded C17 driver); writes the graph only",
         props=["C17"], params=dict(self=Ref("StochasticAtomGraph"), stochastic=Ref("Stochastic"), nested_offset=List(INT)), returns=None, ensures=[],
         raises_may={"Exception": "True"}, modifies=[], allocates=False)

specfn('''
def tok_atoms(t):
    return natoms(smiles_mol(frag_text(t)))
''')

_SE = {
    "len(self.node_offset_list) == old(len(self.node_offset_list)) + 1": "one-offset-list-per-element",
    "len(self.node_offset_list[len(self.node_offset_list) - 1]) == len(stochastic.repeat_tokens) + len(stochastic.end_tokens) + 1": "one-offset-per-token-plus-the-end",
    "self.node_offset_list[len(self.node_offset_list) - 1][0] == old(self.node_counter)": "first-offset-is-the-node-count-so-far",
    "forall(lambda k: implies(0 <= k and k < len(stochastic.repeat_tokens), self.node_offset_list[len(self.node_offset_list) - 1][k + 1] == "
    "self.node_offset_list[len(self.node_offset_list) - 1][k] + tok_atoms(stochastic.repeat_tokens[k])))": "offsets-of-repeat-tokens-are-prefix-sums-of-their-atom-counts",
    "forall(lambda j: implies(0 <= j and j < len(stochastic.end_tokens), self.node_offset_list[len(self.node_offset_list) - 1][len(stochastic.repeat_tokens) + j + 1] == "
    "self.node_offset_list[len(self.node_offset_list) - 1][len(stochastic.repeat_tokens) + j] + tok_atoms(stochastic.end_tokens[j])))": "offsets-of-end-tokens-continue-the-prefix-sums",
    "self.node_counter == self.node_offset_list[len(self.node_offset_list) - 1][len(stochastic.repeat_tokens) + len(stochastic.end_tokens)]": "node-count-is-the-last-offset:one-node-per-atom",
    "forall(lambda k: implies(0 <= k and k < old(len(self.node_offset_list)), self.node_offset_list[k] is old(self.node_offset_list[k])))": "earlier-elements-keep-their-offsets",
}
contract("stochastic_atom_graph.StochasticAtomGraph._add_stochastic_element", props=["C17"],
         params=dict(self=Ref("StochasticAtomGraph"), stochastic=Ref("Stochastic")), returns=None,
         requires=["owner(self.node_offset_list) == GEN", "self.node_offset_list is not stochastic.repeat_tokens and self.node_offset_list is not stochastic.end_tokens"],
         ensures=list(_SE), labels=_SE,
         raises_may={"AttributeError": "True", "Exception": "True"},
         modifies=["StochasticAtomGraph.node_counter@self", "list@self.node_offset_list"],
         loops={1: dict(anchor="token in stochastic.repeat_tokens", modifies=["StochasticAtomGraph.node_counter@self", "list@nested_offset"], stable=["nested_offset"],
                        inv=["fresh(nested_offset) and len(nested_offset) == _i1 + 1 and nested_offset[0] == old(self.node_counter)",
                             "nested_offset[_i1] == self.node_counter",
                             "forall(lambda k: implies(0 <= k and k < _i1, nested_offset[k + 1] == nested_offset[k] + tok_atoms(stochastic.repeat_tokens[k])))"]),
                2: dict(anchor="token in stochastic.end_tokens", modifies=["StochasticAtomGraph.node_counter@self", "list@nested_offset"], stable=["nested_offset"],
                        inv=["fresh(nested_offset) and len(nested_offset) == len(stochastic.repeat_tokens) + _i2 + 1 and nested_offset[0] == old(self.node_counter)",
                             "nested_offset[len(stochastic.repeat_tokens) + _i2] == self.node_counter",
                             "forall(lambda k: implies(0 <= k and k < len(stochastic.repeat_tokens), nested_offset[k + 1] == nested_offset[k] + tok_atoms(stochastic.repeat_tokens[k])))",
                             "forall(lambda j: implies(0 <= j and j < _i2, nested_offset[len(stochastic.repeat_tokens) + j + 1] == "
                             "nested_offset[len(stochastic.repeat_tokens) + j] + tok_atoms(stochastic.end_tokens[j])))"])})


_TE = {
    "len(self.node_offset_list) == old(len(self.node_offset_list)) + 1 and len(self.node_offset_list[len(self.node_offset_list) - 1]) == 1 "
    "and self.node_offset_list[len(self.node_offset_list) - 1][0] == old(self.node_counter)": "a-token-element-gets-one-offset:the-node-count-so-far",
    "self.node_counter == old(self.node_counter) + tok_atoms(token)": "node-count-grows-by-the-atoms-of-the-token:one-node-per-atom",
    "forall(lambda k: implies(0 <= k and k < old(len(self.node_offset_list)), self.node_offset_list[k] is old(self.node_offset_list[k])))": "earlier-elements-keep-their-offsets",
}
contract("stochastic_atom_graph.StochasticAtomGraph._add_token_element", props=["C17"],
         params=dict(self=Ref("StochasticAtomGraph"), token=Ref("SmilesToken")), returns=None,
         requires=["owner(self.node_offset_list) == GEN"],
         ensures=list(_TE), labels=_TE, raises_may={"Exception": "True"},
         modifies=["StochasticAtomGraph.node_counter@self", "list@self.node_offset_list"])
