"""Contracts for the `generable` properties and the base-class guard (C15: a negative weight makes an object not generable, and
generating something not generable is refused).  Stated in the direction the property needs:  generable  ==>  every weight is
non-negative (and a distribution is present) -- the contrapositive is "a negative weight => not generable"."""
from pyvc.registry import contract, specfn
from pyvc.sorts import BOOL, INT, REAL, List, NRef, Opaque, Ref

contract("bond.BondDescriptor.generable", is_property=True, props=["C15"],
         params=dict(self=Ref("BondDescriptor")), returns=BOOL, value="self.weight >= 0",
         ensures=["result == (self.weight >= 0)"], labels={"result == (self.weight >= 0)": "generable-iff-weight-non-negative"},
         modifies=[], allocates=False)

specfn('''
def weights_ok(bds):
    return forall(lambda k: implies(0 <= k and k < len(bds), bds[k].weight >= 0))
''')
specfn('''
def token_gen_ok(t):
    return weights_ok(t.bond_descriptors)
''')
specfn('''
def stoch_gen_ok(s):
    return (weights_ok(s.bond_descriptors) and s.left_terminal.weight >= 0 and s.right_terminal.weight >= 0
            and forall(lambda k: implies(0 <= k and k < len(s.repeat_tokens), token_gen_ok(s.repeat_tokens[k])))
            and forall(lambda k: implies(0 <= k and k < len(s.end_tokens), token_gen_ok(s.end_tokens[k])))
            and not is_none(s.distribution) and s._generable)
''')
specfn('''
def elem_gen_ok(e):
    return ite(isinstance(e, Stochastic), stoch_gen_ok(e), token_gen_ok(e))
''')
specfn('''
def mol_gen_ok(m):
    return forall(lambda k: implies(0 <= k and k < len(m._elements), elem_gen_ok(m._elements[k])))
''')

_T = {"result == token_gen_ok(self)": "generable-iff-no-descriptor-has-a-negative-weight"}
contract("token.SmilesToken.generable", is_property=True, props=["C15"],
         params=dict(self=Ref("SmilesToken")), returns=BOOL, ensures=list(_T), labels=_T, modifies=[], allocates=False,
         loops={1: dict(anchor="bond in self.bond_descriptors", allocates=False,
                        inv=["forall(lambda k: implies(0 <= k and k < _i1, self.bond_descriptors[k].weight >= 0))"])})

_S = {"implies(result, weights_ok(self.bond_descriptors))": "generable-only-if-no-descriptor-has-a-negative-weight",
      "implies(result, self.left_terminal.weight >= 0 and self.right_terminal.weight >= 0)": "generable-only-if-no-terminal-has-a-negative-weight",
      "implies(result, forall(lambda k: implies(0 <= k and k < len(self.repeat_tokens), token_gen_ok(self.repeat_tokens[k]))))": "generable-only-if-every-repeat-token-is",
      "implies(result, forall(lambda k: implies(0 <= k and k < len(self.end_tokens), token_gen_ok(self.end_tokens[k]))))": "generable-only-if-every-end-token-is",
      "implies(result, not is_none(self.distribution) and self._generable)": "generable-only-if-a-distribution-is-present",
      "implies(result, stoch_gen_ok(self))": "generable-only-if-all-of-these"}
# allocates=False on these getters: the temporary lists they build (a + [b, c]) are unreachable garbage when they return a bool, so a
# caller may treat the heap as unchanged (no clause mentions a fresh object)
contract("stochastic.Stochastic.generable", is_property=True, props=["C15"],
         params=dict(self=Ref("Stochastic")), returns=BOOL, ensures=list(_S), labels=_S, modifies=[], allocates=False,
         from_lemmas={"generable-only-if-all-of-these": ["generable-only-if-no-descriptor-has-a-negative-weight", "generable-only-if-no-terminal-has-a-negative-weight",
                                                        "generable-only-if-every-repeat-token-is", "generable-only-if-every-end-token-is",
                                                        "generable-only-if-a-distribution-is-present"]},
         loops={1: dict(anchor="bond in self.bond_descriptors + [self.left_terminal, self.right_terminal]", allocates=False,
                        inv=["forall(lambda k: implies(0 <= k and k < _i1 and k < len(self.bond_descriptors), self.bond_descriptors[k].weight >= 0))",
                             "implies(_i1 > len(self.bond_descriptors), self.left_terminal.weight >= 0)",
                             "implies(_i1 > len(self.bond_descriptors) + 1, self.right_terminal.weight >= 0)"]),
                2: dict(anchor="token in self.repeat_tokens + self.end_tokens", allocates=False,
                        inv=["forall(lambda k: implies(0 <= k and k < _i2 and k < len(self.repeat_tokens), token_gen_ok(self.repeat_tokens[k])))",
                             "forall(lambda j: implies(0 <= j and j + len(self.repeat_tokens) < _i2 and j < len(self.end_tokens), token_gen_ok(self.end_tokens[j])))"])})

contract("mixture.Mixture.generable", is_property=True, props=["C15"],
         params=dict(self=Ref("Mixture")), returns=BOOL, value="True", ensures=["result"], labels={"result": "always-generable"}, modifies=[], allocates=False)

_M = {"implies(result, mol_gen_ok(self))": "generable-only-if-every-element-is"}
contract("molecule.Molecule.generable", is_property=True, props=["C15", "C13"],
         params=dict(self=Ref("Molecule")), returns=BOOL, ensures=list(_M), labels=_M, modifies=[], allocates=False,
         loops={1: dict(anchor="ele in self._elements", allocates=False,
                        inv=["unchanged('list')", "forall(lambda k: implies(0 <= k and k < _i1, elem_gen_ok(self._elements[k])))"])})

_Y = {"implies(result, self._generable and forall(lambda k: implies(0 <= k and k < len(self._molecules), mol_gen_ok(self._molecules[k]))))":
      "generable-only-if-the-masses-were-inferred-and-every-molecule-is-generable"}
contract("system.System.generable", is_property=True, props=["C13", "C15"],
         params=dict(self=Ref("System")), returns=BOOL, ensures=list(_Y), labels=_Y, modifies=[], allocates=False,
         loops={1: dict(anchor="mol in self._molecules", allocates=False,
                        inv=["unchanged('list')", "self._generable", "forall(lambda k: implies(0 <= k and k < _i1, mol_gen_ok(self._molecules[k])))"])})
