"""Sidecar contracts for /repo/src/gbigsmiles.  No code of the repository is copied here."""
from pyvc import externals  # noqa: F401  assumed contracts of builtins / numpy
from . import common  # noqa: F401
from pyvc import externals_chem  # noqa: F401  assumed contracts of deepcopy / RDKit / networkx (needs the ufuncs of common)
from . import bond  # noqa: F401
from . import core  # noqa: F401
from . import token  # noqa: F401
from . import mol_gen  # noqa: F401
from . import distribution  # noqa: F401
from . import stochastic  # noqa: F401
from . import generable  # noqa: F401
from . import mixture  # noqa: F401
from . import system  # noqa: F401
from . import forcefield  # noqa: F401
from . import mol_prob  # noqa: F401
from . import atom_graph  # noqa: F401
