"""Sidecar contracts for /repo/src/gbigsmiles.  No code of the repository is copied here."""
from pyvc import externals  # noqa: F401  assumed contracts of builtins / numpy
from . import common  # noqa: F401
from . import bond  # noqa: F401
from . import core  # noqa: F401
