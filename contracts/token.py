"""Contracts for src/gbigsmiles/token.py: the branch bookkeeping that decides which atom a bond descriptor binds to (C02).

The specification is SMILES itself: reading the characters between two atoms from left to right, '(' opens a branch (remember the atom we branch from)
and ')' closes it (return to that atom).  depth(s, i) is the number of branches opened minus closed within s[:i], rlow(s, i) the lowest depth reached so far;
the stack after the whole text is then fully determined:  result[j] == old[min(j, old_top + rlow)]  and  len(result) == len(old) + depth."""
from pyvc.registry import contract, specfn
from pyvc.sorts import BOOL, INT, STR, List
from pyvc.specs import ufunc

ufunc("char_at", [STR, INT], STR)      # the i-th character of a text (the engine binds the loop variable of `for char in text` to it)
ufunc("depth", [STR, INT], INT)
ufunc("rlow", [STR, INT], INT)

# defining equations of the two spec functions (recursive definitions over the prefix length; a conservative extension, not an assumption about the code)
_DEFS = [
    "depth(string, 0) == 0 and rlow(string, 0) == 0",
    "forall(lambda i: implies(0 <= i and i < len(string), depth(string, i + 1) == depth(string, i) + ite(char_at(string, i) == '(', 1, ite(char_at(string, i) == ')', -1, 0))))",
    "forall(lambda i: implies(0 <= i and i < len(string), rlow(string, i + 1) == min(rlow(string, i), depth(string, i + 1))))",
]
_PP = {
    "result is atom_to_bond": "in-place",
    "len(atom_to_bond) == old(len(atom_to_bond)) + depth(string, len(string))": "one-level-per-open-branch",
    "forall(lambda j: implies(0 <= j and j < len(atom_to_bond), atom_to_bond[j] == old(atom_to_bond[min(j, len(atom_to_bond) - 1 + rlow(string, len(string)))])))":
        "each-level-is-the-atom-it-was-opened-from:characters-are-read-in-order",
}
contract("token._push_pop_atom_branch", props=["C02", "C04"],
         params=dict(string=STR, atom_to_bond=List(INT)), returns=List(INT),
         # the text never closes more branches than are open at that point (otherwise the stack runs empty: IndexError, or a silently shortened stack)
         requires=["len(atom_to_bond) >= 1", "forall(lambda i: implies(0 <= i and i <= len(string), len(atom_to_bond) + rlow(string, i) >= 1))"], assumes=list(_DEFS),
         ensures=list(_PP), labels={**_PP, _DEFS[0]: "def-depth-0", _DEFS[1]: "def-depth-step", _DEFS[2]: "def-rlow-step"},
         raises_may={"IndexError": "True"},
         modifies=["list@atom_to_bond"], allocates=False,
         loops={1: dict(anchor="char in string", modifies=["list@atom_to_bond"], allocates=False,
                        inv=["len(atom_to_bond) == old(len(atom_to_bond)) + depth(string, _i1) and len(atom_to_bond) >= 1",
                             "forall(lambda j: implies(0 <= j and j < len(atom_to_bond), atom_to_bond[j] == old(atom_to_bond[min(j, len(atom_to_bond) - 1 + rlow(string, _i1))])))",
                             "old(len(atom_to_bond)) - 1 + rlow(string, _i1) >= 0 and rlow(string, _i1) <= depth(string, _i1) and rlow(string, _i1) <= 0"])})
