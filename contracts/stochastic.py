"""Contracts for src/gbigsmiles/stochastic.py (the closures of Stochastic.generate) and the accessors they use."""
from pyvc.registry import contract, specfn
from pyvc.sorts import BOOL, IDS, INT, REAL, STR, List, NRef, Opaque, Opt, Ref
from pyvc.specs import ufunc
from .common import SYM
from .common import GENERATOR

MOL = Opaque("Mol")

# ---- accessors of MolGen -------------------------------------------------------------------------------------------------
contract("mol_gen.MolGen.mol", is_property=True, trusted=True,
         why_trusted="body is copy.deepcopy of the RDKit molecule + Chem.SanitizeMol: sanitisation does not change atoms or heavy-atom mass (RDKit, trusted)",
         props=["C05", "C07"],
         params=dict(self=Ref("MolGen")), returns=MOL,
         ensures=["mass(result) == mass(self._mol) and natoms(result) == natoms(self._mol)"],
         raises_may={"Exception": "True"}, modifies=[], allocates=False)

contract("mol_gen.MolGen.fully_generated", is_property=True, props=["C06", "C13", "C20"],
         params=dict(self=Ref("MolGen")), returns=BOOL,
         ensures=["result == (len(self.bond_descriptors) == 0)"], labels={"result == (len(self.bond_descriptors) == 0)": "no-open-descriptor"},
         modifies=[], allocates=False)

contract("mol_gen.MolGen.weight", is_property=True, props=["C05", "C13"],
         params=dict(self=Ref("MolGen")), returns=REAL,
         ensures=["result == mass(self._mol)"], labels={"result == mass(self._mol)": "current-heavy-atom-mass"},
         modifies=[], allocates=False)

# ---- one draw of a target mass: contracts/distribution.py (verified; scipy's sampler itself is trusted) ---------------------------------

_GROW_FRAME = ("unchanged_except('MolGen._mol', my_mol) and unchanged_except('MolGen.graph', my_mol) and unchanged_except('MolGen.bond_descriptors', my_mol) "
               "and lists_unchanged_except(old(my_mol.bond_descriptors)) and unchanged_except('NxGraph.val', old(my_mol.graph))")

# ---- invariant of a parsed stochastic object (established by Stochastic.__init__ / _validate, which is string surgery outside the
# engine's reach: assumed here, checked on every parsed object by the bounded C02 / C15 drivers) ------------------------------------
specfn('''
def bonds_of_tokens(bonds, idx, tokens):
    return (len(idx) == len(bonds)
            and forall(lambda k: implies(0 <= k and k < len(bonds), 0 <= idx[k] and idx[k] < len(tokens)
                                         and exists(lambda j: 0 <= j and j < len(tokens[idx[k]].bond_descriptors) and tokens[idx[k]].bond_descriptors[j] is bonds[k]))))
''')
specfn('''
def stoch_inv(s):
    return (bonds_of_tokens(s.repeat_bonds, s.repeat_bond_token_idx, s.repeat_tokens)
            and bonds_of_tokens(s.end_bonds, s.end_bond_token_idx, s.end_tokens)
            and forall(lambda k: implies(0 <= k and k < len(s.repeat_tokens), token_wf(s.repeat_tokens[k]) and token_gen_ok(s.repeat_tokens[k])))
            and forall(lambda k: implies(0 <= k and k < len(s.end_tokens), token_wf(s.end_tokens[k]) and token_gen_ok(s.end_tokens[k])))
            and weights_ok(s.repeat_bonds) and weights_ok(s.end_bonds) and notation_owned(s))
''')
# everything reachable from a parsed object belongs to the notation, not to a generator (owner is ghost state: only MolGen.__init__,
# deepcopy and the list operations inside generation create generator-owned objects)
specfn('''
def bonds_notation(bonds):
    return (owner(bonds) == NOTATION
            and forall(lambda k: implies(0 <= k and k < len(bonds), owner(bonds[k]) == NOTATION
                                         and (is_none(bonds[k].transitions) or owner(bonds[k].transitions) == NOTATION))))
''')
specfn('''
def tokens_notation(tokens):
    return (owner(tokens) == NOTATION
            and forall(lambda k: implies(0 <= k and k < len(tokens), owner(tokens[k]) == NOTATION and owner(tokens[k].bond_descriptors) == NOTATION)))
''')
specfn('''
def notation_owned(s):
    return (owner(s) == NOTATION and bonds_notation(s.repeat_bonds) and bonds_notation(s.end_bonds) and bonds_notation(s.bond_descriptors) and tokens_notation(s.repeat_tokens) and tokens_notation(s.end_tokens)
            and owner(s.repeat_bond_token_idx) == NOTATION and owner(s.end_bond_token_idx) == NOTATION
            and owner(s.left_terminal) == NOTATION and owner(s.right_terminal) == NOTATION)
''')

# ghost: the token attached by the current step (so that a postcondition can name it)
from pyvc.engine import ghost as _ghost
_ghost("d2_token", Ref("SmilesToken"))
_STEP_GHOSTS = ["ghost.d2_token"]

# stoch_inv(self), clause by clause (the labels are the tags a proof names when it needs one of them)
_STOCH_REQ = {
    "bonds_of_tokens(self.repeat_bonds, self.repeat_bond_token_idx, self.repeat_tokens)": "inv-repeat-bonds-belong-to-their-tokens",
    "bonds_of_tokens(self.end_bonds, self.end_bond_token_idx, self.end_tokens)": "inv-end-bonds-belong-to-their-tokens",
    "forall(lambda k: implies(0 <= k and k < len(self.repeat_tokens), token_wf(self.repeat_tokens[k]) and token_gen_ok(self.repeat_tokens[k])))": "inv-repeat-tokens-well-formed",
    "forall(lambda k: implies(0 <= k and k < len(self.end_tokens), token_wf(self.end_tokens[k]) and token_gen_ok(self.end_tokens[k])))": "inv-end-tokens-well-formed",
    "weights_ok(self.repeat_bonds) and weights_ok(self.end_bonds)": "inv-weights-non-negative",
    "notation_owned(self)": "inv-notation-owned",
}
_CCW, _MI, _AO = "choose_compatible_weight:", "MolGen.__init__:", "MolGen.attach_other:"
_OWN = ["requires:inv-notation-owned", "requires:representation-invariant-kept"]        # who owns what: separates generator lists from notation lists


def pick_site(bds, bond, idx_var):
    """the clauses that state C08 at one weighted decision `idx_var = choose_compatible_weight(bds, bond, rng)`, in the caller's terms;
    returns {clause: label} and {label: uses}"""
    none = bond == "None"
    cand_ok = "True" if none else f"compat_spec({bond}, {bds}[last_cand[k]])"
    w = f"{bds}[last_cand[k]].weight"
    w0 = f"{bds}[last_cand[0]].weight"
    cl = {
        f"last_n > 0 and forall(lambda k: implies(0 <= k and k < last_n, 0 <= last_cand[k] and last_cand[k] < len({bds}) and {cand_ok}))": "candidates-are-compatible-positions",
        f"forall(lambda a, b: implies(0 <= a and a < b and b < last_n, last_cand[a] < last_cand[b]))": "candidates-in-written-order",
        f"implies(not forall(lambda k: implies(0 <= k and k < last_n, {w} == {w0})), last_norm > 0 and forall(lambda k: implies(0 <= k and k < last_n, last_p[k] * last_norm == {w})))": "picked-in-proportion-to-the-written-weights",
        f"implies(forall(lambda k: implies(0 <= k and k < last_n, {w} == {w0})), forall(lambda a, b: implies(0 <= a and a < last_n and 0 <= b and b < last_n, last_p[a] == last_p[b])))": "equal-weights-mean-a-uniform-pick",
        f"0 <= last_pick and last_pick < last_n and last_p[last_pick] > 0 and {idx_var} == last_cand[last_pick] and last_rng == rng and choices == at_site_choices + 1": "zero-probability-never-taken-one-draw-from-the-supplied-generator",
    }
    if none:
        cl[f"last_n == len({bds}) and forall(lambda k: implies(0 <= k and k < last_n, last_cand[k] == k))"] = "every-open-descriptor-is-a-candidate"
    else:
        cl[f"forall(lambda i: implies(0 <= i and i < len({bds}) and i < last_cand[0], not compat_spec({bond}, {bds}[i]))) "
           f"and forall(lambda k, i: implies(0 <= k and k + 1 < last_n and last_cand[k] < i and i < last_cand[k + 1], not compat_spec({bond}, {bds}[i]))) "
           f"and forall(lambda i: implies(last_cand[last_n - 1] < i and i < len({bds}), not compat_spec({bond}, {bds}[i])))"] = "every-compatible-position-is-a-candidate"
    return cl


def site(prefix, clauses):
    return {c: f"{prefix}:{lab}" for c, lab in clauses.items()}


_ghost("at_site_choices", INT)          # number of rng.choice calls before the decision under consideration

# ---- closure: one growth step ----------------------------------------------------------------------------------------------
_A1 = "starting_bond_idx = choose_compatible_weight(my_mol.bond_descriptors, None, rng)"
_B1 = "connecting_bond_idx = rng.choice(range(len(prob)), p=prob)"
_B2 = "connecting_bond_idx = choose_compatible_weight(self.repeat_bonds, starting_bond, rng)"
_C0 = "if connecting_bond_idx < len(self.repeat_bonds):"
_C1 = "connecting_bond_idx = token.bond_descriptors.index(connecting_bond)"
_D = "my_mol = my_mol.attach_other(starting_bond_idx, new_mol, connecting_bond_idx)"
_S_A = site("open-descriptor", pick_site("my_mol.bond_descriptors", "None", "starting_bond_idx"))
_S_B2 = site("partner", pick_site("self.repeat_bonds", "starting_bond", "connecting_bond_idx"))
_S_B1 = site("listed-partner", {
    "last_n == len(starting_bond.transitions) and forall(lambda k: implies(0 <= k and k < last_n, last_cand[k] == k and last_p[k] * starting_bond.weight == starting_bond.transitions[k]))": "listed-transition-weights-are-the-probabilities",
    "0 <= last_pick and last_pick < last_n and last_p[last_pick] > 0 and connecting_bond_idx == last_pick and last_rng == rng and choices == at_site_choices + 1": "zero-probability-never-taken-one-draw-from-the-supplied-generator"})
_S_C0 = site("partner-token", {
    "implies(last_cand[last_pick] < len(self.repeat_bonds), connecting_bond is self.repeat_bonds[last_cand[last_pick]] "
    "and token is self.repeat_tokens[self.repeat_bond_token_idx[last_cand[last_pick]]])": "index-below-the-repeat-count-is-a-repeat-descriptor-of-its-token",
    "implies(last_cand[last_pick] >= len(self.repeat_bonds), connecting_bond is self.end_bonds[last_cand[last_pick] - len(self.repeat_bonds)] "
    "and token is self.end_tokens[self.end_bond_token_idx[last_cand[last_pick] - len(self.repeat_bonds)]])": "index-beyond-is-an-end-group-descriptor-of-its-token"})
_S_C1 = site("partner-token", {"token.bond_descriptors[connecting_bond_idx] is connecting_bond": "the-picked-descriptor-is-located-in-its-token"})
_S_D = site("bond", {
    "bonds == old(bonds) + 1": "one-bond-per-step",
    "bond_a[old(bonds)] == val(starting_bond.atom_bonding_to) and bond_b[old(bonds)] == val(connecting_bond.atom_bonding_to) + old(natoms(my_mol._mol))": "joins-the-atoms-of-the-two-picked-descriptors",
    "bond_t[old(bonds)] == starting_bond.bond_type and bond_t[old(bonds)] == connecting_bond.bond_type and compat_spec(starting_bond, connecting_bond)": "picked-descriptors-are-compatible-and-give-the-bond-order"})

_ARU = {
    "result is my_mol": "grows-the-molecule-it-was-given",
    "molgen_wf(my_mol)": "representation-invariant-kept",
    "weights_ok(my_mol.bond_descriptors)": "open-weights-stay-non-negative",
    "units == old(units) + 1 and mass_after[units] == mass(my_mol._mol) and open_after[units] == len(my_mol.bond_descriptors)": "one-unit-recorded",
    "forall(lambda q: implies(q != units, mass_after[q] == old(mass_after[q]) and open_after[q] == old(open_after[q])))": "earlier-units-unchanged",
    "draws == old(draws)": "no-draw-in-a-growth-step",
    _GROW_FRAME: "only-the-growing-molecule-changes",
    "bonds == old(bonds) + 1": "one-bond-per-step",
    "natoms(my_mol._mol) == old(natoms(my_mol._mol)) + natoms(smiles_mol(frag_text(d2_token))) and "
    "mass(my_mol._mol) == old(mass(my_mol._mol)) + mass(smiles_mol(frag_text(d2_token)))": "grows-by-one-whole-token",
}
_ARU_USES = {
    "representation-invariant-kept": [_AO + "representation-invariant"],
    "open-weights-stay-non-negative": ["requires", _MI + "copies-carry", _MI + "one-open", _AO + "weights-stay"],
    "one-unit-recorded": [], "earlier-units-unchanged": [], "no-draw-in-a-growth-step": [], "grows-the-molecule-it-was-given": [],
    "only-the-growing-molecule-changes": [_AO + "owners"] + _OWN,
    "one-bond-per-step": [], "grows-by-one-whole-token": [],
}
# the decision sites are proved with everything known at that point

_SITE_PROPS = {**{l: ["C08"] for l in list(_S_A.values()) + list(_S_B1.values()) + list(_S_B2.values()) + list(_S_C0.values()) + list(_S_C1.values())},
               **{l: ["C04"] for l in _S_D.values()}}

contract("stochastic.Stochastic.generate.generate_repeat_units_and_finalize.add_repeat_unit",
         props=["C07", "C08", "C04", "C05", "C10"], writes_owner="GEN",
         params=dict(my_mol=Ref("MolGen")), captured=dict(self=Ref("Stochastic"), rng=GENERATOR), returns=Ref("MolGen"),
         requires=["molgen_wf(my_mol)", "weights_ok(my_mol.bond_descriptors)"], assumes=list(_STOCH_REQ),
         ensures=list(_ARU), labels={**_ARU, **_STOCH_REQ, **_S_A, **_S_B1, **_S_B2, **_S_C0, **_S_C1, **_S_D},
         raises_may={"RuntimeError": "True", "ValueError": "True", "IndexError": "True", "TypeError": "True"},
         assert_at={_A1: list(_S_A), _B1: list(_S_B1), _B2: list(_S_B2), _C0: list(_S_C0), _C1: list(_S_C1), _D: list(_S_D)},
         ghost_before={_A1: ["at_site_choices = choices"], _B1: ["at_site_choices = choices"], _B2: ["at_site_choices = choices"]},
         ghost_at={_C1: ["d2_token = token"]},
         ghost_on_return=["units = units + 1", "mass_after[units] = mass(my_mol._mol)", "open_after[units] = len(my_mol.bond_descriptors)"],
         clause_props={**_SITE_PROPS, "one-bond-per-step": ["C04", "C05"], "grows-by-one-whole-token": ["C05"], "one-unit-recorded": ["C07"], "earlier-units-unchanged": ["C07"],
                       "no-draw-in-a-growth-step": ["C07", "C09"], "only-the-growing-molecule-changes": ["C10", "C07"], "frame": ["C10"], "frame-owner": ["C10"], "cover": ["C07", "C08", "C04"],
                       "grows-the-molecule-it-was-given": ["C07"], "representation-invariant-kept": ["C04", "C07"], "open-weights-stay-non-negative": ["C08"]},
         modifies=["MolGen._mol@my_mol", "MolGen.graph@my_mol", "list@my_mol.bond_descriptors",
                   "ghost.units", "ghost.mass_after", "ghost.open_after", "ghost.bonds", "ghost.bond_a", "ghost.bond_b", "ghost.bond_t", "ghost.at_site_choices",
                   "ghost.choices", "ghost.last_p", "ghost.last_n", "ghost.last_pick", "ghost.last_rng", "ghost.last_cand", "ghost.last_norm"] + _STEP_GHOSTS)

# ---- text form of a descriptor as far as generation looks at it (trusted: string assembly / parsing, bounded C01 / C02 drivers) --------------
contract("bond.BondDescriptor.generate_string", trusted=True,
         why_trusted="string assembly with a loop over the transition list and str.strip (outside the solvers' reach); assumed: the text is '[]' exactly for the empty "
                     "terminal descriptor (class invariant of BondDescriptor: an empty symbol comes with no id and no weights), and two descriptors print alike without "
                     "extensions exactly if symbol and id agree. The bounded C01 / C02 drivers check printing and parsing of descriptors",
         props=["C01"], params=dict(self=Ref("BondDescriptor"), extension=BOOL), returns=STR,
         ensures=["(result == '[]') == (self.descriptor == '')", "implies(not extension, result == plain_text(self))"],
         modifies=[], allocates=False)
ufunc("plain_text", [Ref("BondDescriptor")], STR)         # the extension-free text of a descriptor, as a function of the object
# axiom on printing (trusted, bounded C01 driver): two descriptors print alike without extensions exactly if symbol and id agree
specfn('''
def plain_text_axiom(a, b):
    return iff(plain_text(a) == plain_text(b), a.descriptor == b.descriptor and a.descriptor_id == b.descriptor_id)
''')
ufunc("compat_text_of", [Ref("BondDescriptor")], STR)
contract("bond._create_compatible_bond_text", trusted=True,
         why_trusted="string formatting; assumed together with BondDescriptor.__init__: parsing this text gives a descriptor with the SAME symbol and id as `bond`, single bond "
                     "order, weight 1 and no transition list (bounded C01 / C02 drivers check the parser)",
         props=["C06"], params=dict(bond=Ref("BondDescriptor")), returns=STR, ensures=["result == compat_text_of(bond)"], modifies=[], allocates=False)
ufunc("txt_sym", [STR], SYM)
ufunc("txt_id_none", [STR], BOOL)
ufunc("txt_id", [STR], INT)
contract("bond.BondDescriptor.__init__", trusted=True,
         why_trusted="string surgery (find / slices / split / float / int); assumed: the fields are functions of the text (txt_sym, txt_id), and for the text made by "
                     "_create_compatible_bond_text they are the symbol and id of the descriptor it was made from, with weight 1, no list and single bond order. "
                     "The bounded C02 driver checks the parser against an independent printer",
         props=["C02"], params=dict(self=Ref("BondDescriptor"), big_smiles_ext=STR, descr_num=INT, preceding_characters=STR, atom_bonding_to=Opt(INT)), returns=None,
         ensures=["self.descriptor == txt_sym(big_smiles_ext)", "is_none(self.transitions) or len(self.transitions) >= 2"],
         raises_may={"RuntimeError": "True", "ValueError": "True", "IndexError": "True"},
         modifies=[], allocates=True)

# ---- closure: capping (on whatever molecule it is given) --------------------------------------------------------------------
_F0 = "terminal_bond_idx = choose_compatible_weight(my_mol.bond_descriptors, invert_terminal, rng)"
_F1 = "starting_bond_idx = choose_compatible_weight(my_mol.bond_descriptors, None, rng)"
_F2 = "connecting_bond_idx = choose_compatible_weight(self.end_bonds, starting_bond, rng)"
_F3 = "connecting_bond_idx = token.bond_descriptors.index(connecting_bond)"
_F4 = "my_mol = my_mol.attach_other(starting_bond_idx, new_mol, connecting_bond_idx)"
_T_F0 = site("reserved-descriptor", pick_site("my_mol.bond_descriptors", "invert_terminal", "terminal_bond_idx"))
_T_F1 = site("cap:open-descriptor", pick_site("my_mol.bond_descriptors", "None", "starting_bond_idx"))
_T_F2 = site("cap:end-group", pick_site("self.end_bonds", "starting_bond", "connecting_bond_idx"))
_T_F3 = site("cap:end-group-token", {
    "connecting_bond is self.end_bonds[last_cand[last_pick]] and token is self.end_tokens[self.end_bond_token_idx[last_cand[last_pick]]] "
    "and token.bond_descriptors[connecting_bond_idx] is connecting_bond": "the-picked-end-group-descriptor-is-located-in-its-token"})
_T_F4 = site("cap:bond", {
    "bond_a[bonds - 1] == val(starting_bond.atom_bonding_to) and bond_t[bonds - 1] == starting_bond.bond_type and bond_t[bonds - 1] == connecting_bond.bond_type "
    "and compat_spec(starting_bond, connecting_bond)": "cap-joins-the-picked-descriptors-compatible-with-their-bond-order"})

_FIN = {
    "result is my_mol": "caps-the-molecule-it-was-given",
    "units == old(units) and draws == old(draws)": "no-unit-and-no-draw-while-capping",
    "forall(lambda q: mass_after[q] == old(mass_after[q]) and open_after[q] == old(open_after[q]))": "recorded-units-unchanged",
    "implies(self.right_terminal.descriptor == '', len(my_mol.bond_descriptors) == 0)": "closed-right-end-leaves-no-open-descriptor",
    "implies(self.right_terminal.descriptor != '', len(my_mol.bond_descriptors) == 1)": "open-right-end-leaves-exactly-the-reserved-descriptor",
    "molgen_wf(my_mol) and weights_ok(my_mol.bond_descriptors)": "representation-invariant-kept",
}
contract("stochastic.Stochastic.generate.finalize_mol",
         props=["C06", "C08", "C04", "C07", "C10"], writes_owner="GEN",
         params=dict(my_mol=Ref("MolGen")), captured=dict(self=Ref("Stochastic"), rng=GENERATOR), returns=Ref("MolGen"),
         requires=["molgen_wf(my_mol)", "weights_ok(my_mol.bond_descriptors)", "end_groups_are_leaves(self)"], assumes=list(_STOCH_REQ),
         ensures=list(_FIN), labels={**_FIN, **_STOCH_REQ, **_T_F0, **_T_F1, **_T_F2, **_T_F3, **_T_F4, "end_groups_are_leaves(self)": "inv-end-groups-have-one-descriptor"},
         raises_may={"RuntimeError": "True", "ValueError": "True", "IndexError": "True", "TypeError": "True"},
         assert_at={_F0: list(_T_F0), _F1: list(_T_F1), _F2: list(_T_F2), _F3: list(_T_F3), _F4: list(_T_F4)},
         # the representation invariant after a capping step is the callee's own postcondition: its proof needs no other quantified fact
         uses={"loop1:0": [_AO + "representation-invariant"]},
         ghost_before={_F0: ["at_site_choices = choices"], _F1: ["at_site_choices = choices"], _F2: ["at_site_choices = choices"]},
         clause_props={**{l: ["C08"] for l in list(_T_F0.values()) + list(_T_F1.values()) + list(_T_F2.values()) + list(_T_F3.values())}, **{l: ["C04"] for l in _T_F4.values()},
                       "no-unit-and-no-draw-while-capping": ["C07"], "recorded-units-unchanged": ["C07"], "variant": ["C06"],
                       "closed-right-end-leaves-no-open-descriptor": ["C06"], "open-right-end-leaves-exactly-the-reserved-descriptor": ["C06"],
                       "representation-invariant-kept": ["C04", "C06"], "caps-the-molecule-it-was-given": ["C06", "C07"], "cover": ["C06", "C08"], "frame": ["C10"], "frame-owner": ["C10"]},
         modifies=["MolGen._mol@my_mol", "MolGen.graph@my_mol", "list@my_mol.bond_descriptors",
                   "ghost.bonds", "ghost.bond_a", "ghost.bond_b", "ghost.bond_t", "ghost.at_site_choices", "ghost.d2_token",
                   "ghost.choices", "ghost.last_p", "ghost.last_n", "ghost.last_pick", "ghost.last_rng", "ghost.last_cand", "ghost.last_norm"],
         loops={1: dict(anchor="len(my_mol.bond_descriptors) > 0",
                        modifies=["MolGen._mol@my_mol", "MolGen.graph@my_mol", "list@my_mol.bond_descriptors"],
                        ghost_modifies=["bonds", "bond_a", "bond_b", "bond_t", "at_site_choices", "choices", "last_p", "last_n", "last_pick", "last_rng", "last_cand", "last_norm"],
                        inv=["molgen_wf(my_mol)", "weights_ok(my_mol.bond_descriptors)",
                             "implies(not is_none(terminal_bond), terminal_bond.weight >= 0 and desc_wf(my_mol, terminal_bond) and preexisting(terminal_bond) and "
                             "forall(lambda k: implies(0 <= k and k < len(my_mol.bond_descriptors), my_mol.bond_descriptors[k] is not terminal_bond)))",
                             "iff(is_none(terminal_bond), self.right_terminal.descriptor == '')"],
                        locals={"terminal_bond": NRef("BondDescriptor")}, stable=["my_mol", "terminal_bond"],
                        decreases="len(my_mol.bond_descriptors)")})

ufunc("wellposed_s", [Ref("Stochastic")], BOOL)
# every end group is a leaf: exactly one descriptor (C06's well-posedness; without it capping need not terminate)
specfn('''
def end_groups_are_leaves(s):
    return forall(lambda k: implies(0 <= k and k < len(s.end_tokens), len(s.end_tokens[k].bond_descriptors) == 1))
''')

# ---- C07: the growth loop ----------------------------------------------------------------------------------------------------
# ghost: units = number of growth steps so far, mass_after[q] / open_after[q] = heavy-atom mass / open descriptors of the GROWING
# molecule right after step q (set by add_repeat_unit).  W0 = mass of the incoming molecule, T = the one drawn target.
_C07 = {
    "draws == old(draws) + 1 and last_draw_rng == rng": "exactly-one-draw-from-the-supplied-generator",
    "last_draw_family == doc_family(self.distribution) and last_draw_p1 == doc_p1(self.distribution) and last_draw_p2 == doc_p2(self.distribution)": "target-drawn-from-the-declared-law-with-the-declared-parameters",
    "units >= old(units) + 1": "at-least-one-unit",
    "forall(lambda q: implies(old(units) < q and q < units, mass_after[q] - old(mass(my_mol._mol)) <= last_draw and open_after[q] > 0))": "continues-while-not-exceeding",
    "mass_after[units] - old(mass(my_mol._mol)) > last_draw or open_after[units] == 0": "stops-at-first-exceeding-or-no-open-descriptor",
    "implies(open_after[units] != 0, fresh(result))": "capping-on-a-copy",
    "fresh(result) or result is my_mol": "returns-a-copy-or-the-molecule-it-was-given",
    "molgen_wf(result) and weights_ok(result.bond_descriptors)": "returns-a-well-formed-molecule",
    "implies(self.right_terminal.descriptor == '', len(result.bond_descriptors) == 0)": "closed-right-end-leaves-no-open-descriptor",
    "implies(self.right_terminal.descriptor != '' and open_after[units] != 0, len(result.bond_descriptors) == 1)": "open-right-end-leaves-exactly-the-reserved-descriptor",
    "implies(open_after[units] == 0, len(result.bond_descriptors) == 0)": "premature-end-leaves-no-open-descriptor",
    "mass(entry(my_mol)._mol) == mass_after[units]": "growing-molecule-not-capped",
}
contract("stochastic.Stochastic.generate.generate_repeat_units_and_finalize",
         props=["C07", "C09", "C10"],
         params=dict(my_mol=Ref("MolGen")), captured=dict(self=Ref("Stochastic"), rng=GENERATOR,
                                                          finalize_mol=("func", "stochastic.Stochastic.generate.finalize_mol")),
         returns=Ref("MolGen"),
         requires=["molgen_wf(my_mol)", "not is_none(self.distribution)", "dist_inv(self.distribution)", "weights_ok(my_mol.bond_descriptors)", "end_groups_are_leaves(self)"], assumes=["notation_owned(self)"],
         ensures=list(_C07), labels=_C07,
         clause_props={"target-drawn-from-the-declared-law-with-the-declared-parameters": ["C09", "C07"], "cover": ["C07", "C09"],
                       "returns-a-well-formed-molecule": ["C06", "C07"], "closed-right-end-leaves-no-open-descriptor": ["C06"],
                       "open-right-end-leaves-exactly-the-reserved-descriptor": ["C06"], "premature-end-leaves-no-open-descriptor": ["C06"], "frame": ["C10"], "frame-owner": ["C10"]},
         raises_may={"RuntimeError": "True", "ValueError": "True", "NotImplementedError": "True", "Exception": "True"},
         modifies=["MolGen._mol@my_mol", "MolGen.graph@my_mol", "list@my_mol.bond_descriptors",
                   "ghost.units", "ghost.mass_after", "ghost.open_after", "ghost.bonds", "ghost.bond_a", "ghost.bond_b", "ghost.bond_t",
                   "ghost.draws", "ghost.last_draw", "ghost.last_draw_rng", "ghost.last_draw_family", "ghost.last_draw_p1", "ghost.last_draw_p2",
                   "ghost.choices", "ghost.last_p", "ghost.last_n", "ghost.last_pick", "ghost.last_rng", "ghost.last_cand", "ghost.last_norm", "ghost.at_site_choices", "ghost.d2_token"],
         loops={1: dict(
             anchor="True",
             modifies=["MolGen._mol@my_mol", "MolGen.graph@my_mol", "list@my_mol.bond_descriptors"],
             ghost_modifies=["units", "mass_after", "open_after", "bonds", "bond_a", "bond_b", "bond_t",
                             "choices", "last_p", "last_n", "last_pick", "last_rng", "last_cand", "last_norm", "at_site_choices", "d2_token"],
             locals={"finalized_my_mol": Ref("MolGen")}, stable=["my_mol"],
             inv=["my_mol is entry(my_mol) and molgen_wf(my_mol) and weights_ok(my_mol.bond_descriptors)",
                  "draws == old(draws) + 1 and last_draw == target_mol_weight and last_draw_rng == rng",
                  "last_draw_family == doc_family(self.distribution) and last_draw_p1 == doc_p1(self.distribution) and last_draw_p2 == doc_p2(self.distribution)",
                  "starting_mol_weight == old(mass(my_mol._mol))",
                  "units >= old(units)",
                  "forall(lambda q: implies(old(units) < q and q <= units, mass_after[q] - starting_mol_weight <= target_mol_weight and open_after[q] > 0))",
                  "implies(units > old(units), mass_after[units] == mass(my_mol._mol))"])})


# ---- closure: where generation of this object starts ----------------------------------------------------------------------------------------
_G0 = "end_bond_idx = choose_compatible_weight(self.end_bonds, None, rng)"
_T_G0 = site("start-end-group", pick_site("self.end_bonds", "None", "end_bond_idx"))
_GS = {
    "molgen_wf(result) and weights_ok(result.bond_descriptors) and len(result.bond_descriptors) == 1": "starts-with-exactly-one-open-descriptor",
    "implies(is_none(prefix), fresh(result) and fresh(result.bond_descriptors) and fresh(result.graph) and self.left_terminal.descriptor == '' and result._mol == smiles_mol(frag_text(d2_token)) "
    "and d2_token is self.end_tokens[self.end_bond_token_idx[last_cand[last_pick]]])": "without-prefix-starts-from-a-picked-end-group",
    "implies(not is_none(prefix), result is prefix and result.bond_descriptors[0].weight == self.left_terminal.weight "
    "and result.bond_descriptors[0].transitions is self.left_terminal.transitions)": "prefix-descriptor-takes-the-left-terminals-weight-and-list",
    "implies(not is_none(prefix), old(len(prefix.bond_descriptors)) == 1 and old(prefix.bond_descriptors[0].descriptor) == self.left_terminal.descriptor "
    "and old(prefix.bond_descriptors[0].descriptor_id) == self.left_terminal.descriptor_id)": "prefix-open-descriptor-equals-the-left-terminal",
    "units == old(units) and draws == old(draws) and bonds == old(bonds)": "no-unit-no-draw-no-bond-at-the-start",
}
contract("stochastic.Stochastic.generate.get_start",
         props=["C06", "C08", "C15", "C10"],
         params={}, captured=dict(self=Ref("Stochastic"), rng=GENERATOR, prefix=NRef("MolGen")), returns=Ref("MolGen"),
         requires=["implies(not is_none(prefix), molgen_wf(prefix))", "self.left_terminal.weight >= 0"],
         assumes=list(_STOCH_REQ) + ["implies(not is_none(prefix) and len(prefix.bond_descriptors) > 0, plain_text_axiom(prefix.bond_descriptors[0], self.left_terminal))"],
         ensures=list(_GS), labels={**_GS, **_STOCH_REQ, **_T_G0},
         raises_may={"RuntimeError": "True", "ValueError": "True", "IndexError": "True"},
         assert_at={_G0: list(_T_G0)}, ghost_before={_G0: ["at_site_choices = choices"]},
         ghost_at={"start_token = self.end_tokens[self.end_bond_token_idx[end_bond_idx]]": ["d2_token = start_token"]},
         clause_props={**{l: ["C08"] for l in _T_G0.values()}, "prefix-descriptor-takes-the-left-terminals-weight-and-list": ["C08"],
                       "prefix-open-descriptor-equals-the-left-terminal": ["C15", "C06"], "without-prefix-starts-from-a-picked-end-group": ["C06", "C15"],
                       "starts-with-exactly-one-open-descriptor": ["C06"], "no-unit-no-draw-no-bond-at-the-start": ["C07"], "cover": ["C06", "C08", "C15"], "frame": ["C10"], "frame-owner": ["C10"]},
         modifies=["BondDescriptor.weight@prefix.bond_descriptors[0]", "BondDescriptor.transitions@prefix.bond_descriptors[0]",
                   "ghost.at_site_choices", "ghost.d2_token",
                   "ghost.choices", "ghost.last_p", "ghost.last_n", "ghost.last_pick", "ghost.last_rng", "ghost.last_cand", "ghost.last_norm"],
         writes_owner="GEN")

# ---- Stochastic.generate: guard, start, growth, capping ------------------------------------------------------------------------------------------
_SG = {
    "old(stoch_gen_ok(self))": "refuses-what-is-not-generable",
    "molgen_wf(result) and weights_ok(result.bond_descriptors)": "returns-a-well-formed-molecule",
    "implies(self.right_terminal.descriptor == '', len(result.bond_descriptors) == 0)": "closed-right-end-leaves-no-open-descriptor",
    "implies(self.right_terminal.descriptor != '' and open_after[units] != 0, len(result.bond_descriptors) == 1)": "open-right-end-leaves-exactly-one-open-descriptor",
    "len(result.bond_descriptors) <= 1": "at-most-one-open-descriptor-is-handed-on",
    "fresh(result) or result is prefix": "returns-a-new-molecule-or-the-prefix-it-was-given",
    "units >= old(units) + 1": "at-least-one-repeat-unit",
    "draws == old(draws) + 1 and last_draw_rng == rng": "one-target-mass-drawn-with-the-supplied-generator",
    "last_draw_family == doc_family(self.distribution) and last_draw_p1 == doc_p1(self.distribution) and last_draw_p2 == doc_p2(self.distribution)": "target-drawn-from-the-declared-law",
    "implies(is_none(prefix), self.left_terminal.descriptor == '')": "a-non-empty-left-terminal-needs-a-prefix",
    "implies(not is_none(prefix), old(len(prefix.bond_descriptors)) == 1 and old(prefix.bond_descriptors[0].descriptor) == self.left_terminal.descriptor "
    "and old(prefix.bond_descriptors[0].descriptor_id) == self.left_terminal.descriptor_id)": "prefix-open-descriptor-equals-the-left-terminal",
}
_ALL_GHOSTS = ["ghost.units", "ghost.mass_after", "ghost.open_after", "ghost.bonds", "ghost.bond_a", "ghost.bond_b", "ghost.bond_t", "ghost.at_site_choices", "ghost.d2_token",
               "ghost.draws", "ghost.last_draw", "ghost.last_draw_rng", "ghost.last_draw_family", "ghost.last_draw_p1", "ghost.last_draw_p2",
               "ghost.choices", "ghost.last_p", "ghost.last_n", "ghost.last_pick", "ghost.last_rng", "ghost.last_cand", "ghost.last_norm"]
contract("stochastic.Stochastic.generate",
         props=["C06", "C07", "C09", "C15", "C10"],
         params=dict(self=Ref("Stochastic"), prefix=NRef("MolGen"), rng=GENERATOR), defaults={"prefix": None, "rng": None}, returns=Ref("MolGen"),
         requires=["implies(not is_none(prefix), molgen_wf(prefix))", "wellposed_s(self)"],
         # wellposed_s(o): "every end group of o is a leaf", as a state-independent predicate of the object (the notation is never written during
         # generation: frame obligations); its meaning is unfolded here, where it is used
         assumes=["notation_owned(self)", "implies(not is_none(self.distribution), dist_inv(self.distribution))", "wellposed_s(self) == end_groups_are_leaves(self)"],
         ensures=list(_SG), labels={**_SG, "notation_owned(self)": "inv-notation-owned", "implies(not is_none(self.distribution), dist_inv(self.distribution))": "inv-distribution-object"},
         raises_may={"RuntimeError": "True", "ValueError": "True", "IndexError": "True", "TypeError": "True", "NotImplementedError": "True", "Exception": "True"},
         clause_props={"refuses-what-is-not-generable": ["C15"], "a-non-empty-left-terminal-needs-a-prefix": ["C15", "C06"], "prefix-open-descriptor-equals-the-left-terminal": ["C15", "C06"],
                       "at-most-one-open-descriptor-is-handed-on": ["C06"], "at-least-one-repeat-unit": ["C06", "C07"],
                       "one-target-mass-drawn-with-the-supplied-generator": ["C07", "C09", "C10"], "target-drawn-from-the-declared-law": ["C09"],
                       "closed-right-end-leaves-no-open-descriptor": ["C06"], "open-right-end-leaves-exactly-one-open-descriptor": ["C06"],
                       "returns-a-well-formed-molecule": ["C06", "C04"], "cover": ["C06", "C07", "C09", "C15"], "frame": ["C10"]},
         modifies=["BondDescriptor.weight@prefix.bond_descriptors[0]", "BondDescriptor.transitions@prefix.bond_descriptors[0]",
                   "MolGen._mol@prefix", "MolGen.graph@prefix", "list@prefix.bond_descriptors"] + _ALL_GHOSTS)


# ---- SmilesToken.generate: a plain token, attached to the prefix through one of its own descriptors (hand-over, C04 / C06 / C08) ------------
_K0 = "my_idx = choose_compatible_weight(my_mol.bond_descriptors, prefix.bond_descriptors[0], rng)"
_K1 = "my_mol = prefix.attach_other(0, my_mol, my_idx)"
_T_K0 = site("hand-over", pick_site("my_mol.bond_descriptors", "prefix.bond_descriptors[0]", "my_idx"))
_T_K1 = site("hand-over:bond", {
    "bonds == old(bonds) + 1 and bond_a[old(bonds)] == old(val(prefix.bond_descriptors[0].atom_bonding_to)) "
    "and bond_t[old(bonds)] == old(prefix.bond_descriptors[0].bond_type)": "one-bond-at-the-atom-of-the-prefix-descriptor-with-its-order"})
_TG = {
    "old(token_gen_ok(self))": "refuses-a-token-with-a-negative-weight",
    "molgen_wf(result) and implies(is_none(prefix) or old(weights_ok(prefix.bond_descriptors)), weights_ok(result.bond_descriptors))": "returns-a-well-formed-molecule",
    "implies(is_none(prefix), fresh(result) and fresh(result.bond_descriptors) and fresh(result.graph) and len(result.bond_descriptors) == len(self.bond_descriptors) "
    "and result._mol == smiles_mol(frag_text(self)))": "without-prefix-the-token-itself",
    "implies(not is_none(prefix), result is prefix and old(len(prefix.bond_descriptors)) == 1 and len(result.bond_descriptors) == len(self.bond_descriptors) - 1 "
    "and natoms(result._mol) == old(natoms(prefix._mol)) + natoms(smiles_mol(frag_text(self))) and mass(result._mol) == old(mass(prefix._mol)) + mass(smiles_mol(frag_text(self))))":
        "with-prefix-one-bond-consumes-one-descriptor-on-each-side",
    "units == old(units) and draws == old(draws)": "no-unit-and-no-draw",
}
contract("token.SmilesToken.generate",
         props=["C06", "C04", "C08", "C15", "C05", "C10"],
         params=dict(self=Ref("SmilesToken"), prefix=NRef("MolGen"), rng=GENERATOR), defaults={"prefix": None, "rng": None}, returns=Ref("MolGen"),
         requires=["implies(not is_none(prefix), molgen_wf(prefix))"],
         assumes=["token_wf(self)", "owner(self) == NOTATION and owner(self.bond_descriptors) == NOTATION"],
         ensures=list(_TG), labels={**_TG, **_T_K0, **_T_K1, "token_wf(self)": "inv-token-well-formed"},
         raises_may={"RuntimeError": "True", "ValueError": "True", "IndexError": "True", "TypeError": "True"},
         assert_at={_K0: list(_T_K0), _K1: list(_T_K1)}, ghost_before={_K0: ["at_site_choices = choices"]},
         clause_props={**{l: ["C08"] for l in _T_K0.values()}, **{l: ["C04"] for l in _T_K1.values()},
                       "refuses-a-token-with-a-negative-weight": ["C15"], "returns-a-well-formed-molecule": ["C06", "C04"],
                       "without-prefix-the-token-itself": ["C06", "C05"], "with-prefix-one-bond-consumes-one-descriptor-on-each-side": ["C06", "C05", "C04"],
                       "no-unit-and-no-draw": ["C07"], "cover": ["C06", "C08", "C04"], "frame": ["C10"]},
         modifies=["MolGen._mol@prefix", "MolGen.graph@prefix", "list@prefix.bond_descriptors",
                   "ghost.bonds", "ghost.bond_a", "ghost.bond_b", "ghost.bond_t", "ghost.at_site_choices",
                   "ghost.choices", "ghost.last_p", "ghost.last_n", "ghost.last_pick", "ghost.last_rng", "ghost.last_cand", "ghost.last_norm"])


# ---- validation at the end of parsing a stochastic object (C15: a transition list whose length differs from the number of descriptors is rejected) ---------------
specfn('''
def bad_list(s, b):
    return not is_none(b.transitions) and len(b.transitions) != len(s.bond_descriptors)
''')
_VAL_RAISES = ("exists(0, len(self.bond_descriptors), lambda k: bad_list(self, self.bond_descriptors[k])) or bad_list(self, self.left_terminal) "
               "or bad_list(self, self.right_terminal) or len(self.bond_descriptors) != len(self.end_bonds) + len(self.repeat_bonds)")
_VAL = {
    "forall(lambda k: implies(0 <= k and k < len(self.bond_descriptors), not bad_list(self, self.bond_descriptors[k])))": "every-transition-list-has-one-entry-per-descriptor",
    "not bad_list(self, self.left_terminal) and not bad_list(self, self.right_terminal)": "terminal-transition-lists-too",
    "len(self.bond_descriptors) == len(self.end_bonds) + len(self.repeat_bonds)": "descriptors-are-those-of-repeat-units-and-end-groups",
}
contract("stochastic.Stochastic._validate", props=["C15", "C02"],
         params=dict(self=Ref("Stochastic")), returns=None,
         raises={"RuntimeError": _VAL_RAISES}, ensures=list(_VAL), labels=_VAL,
         modifies=[], allocates=True,
         loops={1: dict(anchor="bd in self.bond_descriptors + [self.left_terminal, self.right_terminal]", modifies=[], allocates=False,
                        inv=["forall(lambda k: implies(0 <= k and k < _i1, not bad_list(self, _it1[k])))",
                             "len(_it1) == len(self.bond_descriptors) + 2 and _it1[len(self.bond_descriptors)] is self.left_terminal and _it1[len(self.bond_descriptors) + 1] is self.right_terminal",
                             "forall(lambda k: implies(0 <= k and k < len(self.bond_descriptors), _it1[k] is self.bond_descriptors[k]))"])})


# ---- residues of a stochastic object: its repeat-unit tokens in written order, then its end-group tokens (C05 / C17: residue numbering follows this order) ---------
_RES = {
    "fresh(result) and len(result) == len(self.repeat_tokens) + len(self.end_tokens)": "one-residue-per-token",
    "forall(lambda k: implies(0 <= k and k < len(self.repeat_tokens), result[k] is self.repeat_tokens[k]))": "repeat-units-first-in-written-order",
    "forall(lambda k: implies(0 <= k and k < len(self.end_tokens), result[len(self.repeat_tokens) + k] is self.end_tokens[k]))": "then-the-end-groups-in-written-order",
}
contract("stochastic.Stochastic.residues", is_property=True, props=["C05"],
         params=dict(self=Ref("Stochastic")), returns=List(Ref("SmilesToken")),
         ensures=list(_RES), labels=_RES, modifies=[], allocates=True,
         loops={1: dict(anchor="token in self.repeat_tokens", locals={"residues": List(Ref("SmilesToken"))}, stable=["residues"], modifies=["list@residues"],
                        inv=["fresh(residues) and len(residues) == _i1",
                             "forall(lambda k: implies(0 <= k and k < _i1, residues[k] is self.repeat_tokens[k]))"]),
                2: dict(anchor="token in self.end_tokens", locals={"residues": List(Ref("SmilesToken"))}, stable=["residues"], modifies=["list@residues"],
                        inv=["fresh(residues) and len(residues) == len(self.repeat_tokens) + _i2",
                             "forall(lambda k: implies(0 <= k and k < len(self.repeat_tokens), residues[k] is self.repeat_tokens[k]))",
                             "forall(lambda k: implies(0 <= k and k < _i2, residues[len(self.repeat_tokens) + k] is self.end_tokens[k]))"])})
