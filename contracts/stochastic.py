"""Contracts for src/gbigsmiles/stochastic.py (the closures of Stochastic.generate) and the accessors they use."""
from pyvc.registry import contract, specfn
from pyvc.sorts import BOOL, INT, REAL, List, NRef, Opaque, Ref
from .common import GENERATOR

MOL = Opaque("Mol")

# ---- accessors of MolGen -------------------------------------------------------------------------------------------------
contract("mol_gen.MolGen.mol", is_property=True, trusted=True,
         why_trusted="body is copy.deepcopy of the RDKit molecule + Chem.SanitizeMol: sanitisation does not change atoms or heavy-atom mass (RDKit, trusted)",
         props=["C05", "C07"],
         params=dict(self=Ref("MolGen")), returns=MOL,
         ensures=["mass(result) == mass(self._mol) and natoms(result) == natoms(self._mol)"],
         raises_may={"Exception": "True"}, modifies=[], allocates=False)

contract("mol_gen.MolGen.fully_generated", is_property=True, props=["C06", "C13", "C20"],
         params=dict(self=Ref("MolGen")), returns=BOOL,
         ensures=["result == (len(self.bond_descriptors) == 0)"], labels={"result == (len(self.bond_descriptors) == 0)": "no-open-descriptor"},
         modifies=[], allocates=False)

contract("mol_gen.MolGen.weight", is_property=True, props=["C05", "C13"],
         params=dict(self=Ref("MolGen")), returns=REAL,
         ensures=["result == mass(self._mol)"], labels={"result == mass(self._mol)": "current-heavy-atom-mass"},
         modifies=[], allocates=False)

# ---- one draw of a target mass: contracts/distribution.py (verified; scipy's sampler itself is trusted) ---------------------------------

_GROW_FRAME = ("unchanged_except('MolGen._mol', my_mol) and unchanged_except('MolGen.graph', my_mol) and unchanged_except('MolGen.bond_descriptors', my_mol) "
               "and lists_unchanged_except(old(my_mol.bond_descriptors)) and unchanged_except('NxGraph.val', old(my_mol.graph))")

# ---- closure: one growth step ----------------------------------------------------------------------------------------------
contract("stochastic.Stochastic.generate.generate_repeat_units_and_finalize.add_repeat_unit",
         props=["C07"], trusted=True,
         why_trusted="not yet verified by the engine (MolGen.__init__ and list.index inside); its decision sites and attachments are monitored at run time (C04 / C08 drivers)",
         params=dict(my_mol=Ref("MolGen")), captured=dict(self=Ref("Stochastic"), rng=GENERATOR), returns=Ref("MolGen"),
         requires=["molgen_wf(my_mol)"],
         ensures=["result is my_mol", "molgen_wf(my_mol)",
                  "units == old(units) + 1 and mass_after[units] == mass(my_mol._mol) and open_after[units] == len(my_mol.bond_descriptors)",
                  "forall(lambda q: implies(q != units, mass_after[q] == old(mass_after[q]) and open_after[q] == old(open_after[q])))",
                  "draws == old(draws)",
                  _GROW_FRAME],
         raises_may={"RuntimeError": "True", "ValueError": "True", "Exception": "True"},
         modifies=["MolGen._mol", "MolGen.graph", "list", "NxGraph.val", "EditableMol.val", "MolGen.bond_descriptors",
                   "ghost.units", "ghost.mass_after", "ghost.open_after", "ghost.bonds", "ghost.bond_a", "ghost.bond_b", "ghost.bond_t",
                   "ghost.choices", "ghost.last_p", "ghost.last_n", "ghost.last_pick", "ghost.last_rng", "ghost.last_cand", "ghost.last_norm"])

# ---- closure: capping (on whatever molecule it is given) --------------------------------------------------------------------
contract("stochastic.Stochastic.generate.finalize_mol",
         props=["C07"], trusted=True,
         why_trusted="not yet verified by the engine; monitored at run time (C04 / C06 / C08 drivers)",
         params=dict(my_mol=Ref("MolGen")), captured=dict(self=Ref("Stochastic"), rng=GENERATOR), returns=Ref("MolGen"),
         requires=["molgen_wf(my_mol)"],
         ensures=["result is my_mol", "units == old(units) and draws == old(draws)",
                  "forall(lambda q: mass_after[q] == old(mass_after[q]) and open_after[q] == old(open_after[q]))",
                  _GROW_FRAME],
         raises_may={"RuntimeError": "True", "ValueError": "True", "Exception": "True"},
         modifies=["MolGen._mol", "MolGen.graph", "list", "NxGraph.val", "EditableMol.val", "MolGen.bond_descriptors",
                   "ghost.bonds", "ghost.bond_a", "ghost.bond_b", "ghost.bond_t",
                   "ghost.choices", "ghost.last_p", "ghost.last_n", "ghost.last_pick", "ghost.last_rng", "ghost.last_cand", "ghost.last_norm"])

# ---- C07: the growth loop ----------------------------------------------------------------------------------------------------
# ghost: units = number of growth steps so far, mass_after[q] / open_after[q] = heavy-atom mass / open descriptors of the GROWING
# molecule right after step q (set by add_repeat_unit).  W0 = mass of the incoming molecule, T = the one drawn target.
_C07 = {
    "draws == old(draws) + 1 and last_draw_rng == rng": "exactly-one-draw-from-the-supplied-generator",
    "last_draw_family == doc_family(self.distribution) and last_draw_p1 == doc_p1(self.distribution) and last_draw_p2 == doc_p2(self.distribution)": "target-drawn-from-the-declared-law-with-the-declared-parameters",
    "units >= old(units) + 1": "at-least-one-unit",
    "forall(lambda q: implies(old(units) < q and q < units, mass_after[q] - old(mass(my_mol._mol)) <= last_draw and open_after[q] > 0))": "continues-while-not-exceeding",
    "mass_after[units] - old(mass(my_mol._mol)) > last_draw or open_after[units] == 0": "stops-at-first-exceeding-or-no-open-descriptor",
    "implies(open_after[units] != 0, fresh(result))": "capping-on-a-copy",
    "mass(entry(my_mol)._mol) == mass_after[units]": "growing-molecule-not-capped",
}
contract("stochastic.Stochastic.generate.generate_repeat_units_and_finalize",
         props=["C07", "C09"],
         params=dict(my_mol=Ref("MolGen")), captured=dict(self=Ref("Stochastic"), rng=GENERATOR,
                                                          finalize_mol=("func", "stochastic.Stochastic.generate.finalize_mol")),
         returns=Ref("MolGen"),
         requires=["molgen_wf(my_mol)", "not is_none(self.distribution)", "dist_inv(self.distribution)"],
         ensures=list(_C07), labels=_C07,
         clause_props={"target-drawn-from-the-declared-law-with-the-declared-parameters": ["C09", "C07"], "cover": ["C07", "C09"]},
         raises_may={"RuntimeError": "True", "ValueError": "True", "NotImplementedError": "True", "Exception": "True"},
         modifies=["MolGen._mol", "MolGen.graph", "list", "NxGraph.val", "EditableMol.val", "MolGen.bond_descriptors",
                   "ghost.units", "ghost.mass_after", "ghost.open_after", "ghost.bonds", "ghost.bond_a", "ghost.bond_b", "ghost.bond_t",
                   "ghost.draws", "ghost.last_draw", "ghost.last_draw_rng", "ghost.last_draw_family", "ghost.last_draw_p1", "ghost.last_draw_p2",
                   "ghost.choices", "ghost.last_p", "ghost.last_n", "ghost.last_pick", "ghost.last_rng", "ghost.last_cand", "ghost.last_norm"],
         loops={1: dict(
             anchor="True",
             modifies=["MolGen._mol", "MolGen.graph", "list", "NxGraph.val", "EditableMol.val", "MolGen.bond_descriptors"],
             ghost_modifies=["units", "mass_after", "open_after", "bonds", "bond_a", "bond_b", "bond_t",
                             "choices", "last_p", "last_n", "last_pick", "last_rng", "last_cand", "last_norm"],
             locals={"finalized_my_mol": Ref("MolGen")},
             inv=["my_mol is entry(my_mol) and molgen_wf(my_mol)",
                  "draws == old(draws) + 1 and last_draw == target_mol_weight and last_draw_rng == rng",
                  "last_draw_family == doc_family(self.distribution) and last_draw_p1 == doc_p1(self.distribution) and last_draw_p2 == doc_p2(self.distribution)",
                  "starting_mol_weight == old(mass(my_mol._mol))",
                  "units >= old(units)",
                  "forall(lambda q: implies(old(units) < q and q <= units, mass_after[q] - starting_mol_weight <= target_mol_weight and open_after[q] > 0))",
                  "implies(units > old(units), mass_after[units] == mass(my_mol._mol))"])})
