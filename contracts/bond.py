"""Contracts for src/gbigsmiles/bond.py"""
from pyvc.registry import contract, lemma, specfn
from pyvc.sorts import BOOL, IDS, INT, REAL, STR, NRef, Ref
from .common import BT

# C03 -- the specification is the property statement, not the code:
#   "both are non-empty, carry the same id (no id counts as an id of its own), would form the same bond order,
#    and their symbols are $ with $ or < with >"
specfn('''
def compat_spec(a, b):
    return (a.descriptor != "" and b.descriptor != "" and a.descriptor_id == b.descriptor_id
            and a.bond_type == b.bond_type
            and ((a.descriptor == "$" and b.descriptor == "$") or (a.descriptor == "<" and b.descriptor == ">")
                 or (a.descriptor == ">" and b.descriptor == "<")))
''')

contract("bond.BondDescriptor.is_compatible",
         props=["C03"],
         params=dict(self=Ref("BondDescriptor"), other=Ref("BondDescriptor")),
         returns=BOOL,
         ensures=["result == compat_spec(self, other)"],
         labels={"result == compat_spec(self, other)": "conjugation-rule"},
         reads=["BondDescriptor.bond_type", "BondDescriptor.descriptor_id", "BondDescriptor.descriptor"],
         modifies=[], allocates=False)

lemma("compat_symmetric", dict(a=Ref("BondDescriptor"), b=Ref("BondDescriptor")),
      "compat_spec(a, b) == compat_spec(b, a)", props=["C03"])
lemma("compat_empty_bonds_nothing", dict(a=Ref("BondDescriptor"), b=Ref("BondDescriptor")),
      "implies(a.descriptor == '', not compat_spec(a, b) and not compat_spec(b, a))", props=["C03"])
