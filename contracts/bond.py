"""Contracts for src/gbigsmiles/bond.py"""
from pyvc.registry import contract, lemma, specfn
from pyvc.sorts import BOOL, IDS, INT, REAL, STR, NRef, Ref
from .common import BT

# C03 -- the specification is the property statement, not the code:
#   "both are non-empty, carry the same id (no id counts as an id of its own), would form the same bond order,
#    and their symbols are $ with $ or < with >"
specfn('''
def compat_spec(a, b):
    return (a.descriptor != "" and b.descriptor != "" and a.descriptor_id == b.descriptor_id
            and a.bond_type == b.bond_type
            and ((a.descriptor == "$" and b.descriptor == "$") or (a.descriptor == "<" and b.descriptor == ">")
                 or (a.descriptor == ">" and b.descriptor == "<")))
''')

contract("bond.BondDescriptor.is_compatible",
         props=["C03"],
         params=dict(self=Ref("BondDescriptor"), other=Ref("BondDescriptor")),
         returns=BOOL,
         ensures=["result == compat_spec(self, other)"],
         labels={"result == compat_spec(self, other)": "conjugation-rule"},
         reads=["BondDescriptor.bond_type", "BondDescriptor.descriptor_id", "BondDescriptor.descriptor"],
         modifies=[], allocates=False)

lemma("compat_symmetric", dict(a=Ref("BondDescriptor"), b=Ref("BondDescriptor")),
      "compat_spec(a, b) == compat_spec(b, a)", props=["C03"])
lemma("compat_empty_bonds_nothing", dict(a=Ref("BondDescriptor"), b=Ref("BondDescriptor")),
      "implies(a.descriptor == '', not compat_spec(a, b) and not compat_spec(b, a))", props=["C03"])


# ---- the parser of one descriptor text (C02): what is proved about the real string surgery --------------------------------------------------------------------
# (the callers in the generator keep using the abstract contract `bond.BondDescriptor.__init__` in contracts/stochastic.py; this variant is verified against the body)
from pyvc.sorts import INT, STR, Opt
_BOND_ORDER = ("self.bond_type == ite(':' in preceding_characters, BT.ONEANDAHALF, ite('$' in preceding_characters, BT.QUADRUPLE, "
               "ite('#' in preceding_characters, BT.TRIPLE, ite('=' in preceding_characters, BT.DOUBLE, BT.SINGLE))))")
_PARSE = {
    "self.descriptor_num == descr_num": "position-number-as-given",
    "implies(big_smiles_ext == '[]', self.descriptor == '' and self.weight == 1.0 and is_none(self.transitions) and self.bond_type == BT.UNSPECIFIED)": "empty-descriptor-bonds-nothing",
    f"implies(big_smiles_ext != '[]', {_BOND_ORDER})": "bond-order-from-the-characters-before-the-descriptor",
    "implies(big_smiles_ext != '[]' and len(preceding_characters) > 0, self.descriptor == big_smiles_ext[1])": "symbol-is-the-character-after-the-bracket",
    "implies(big_smiles_ext != '[]' and len(preceding_characters) > 0 and '|' not in big_smiles_ext, self.weight == 1.0 and is_none(self.transitions))": "no-weight-written-means-weight-one",
    "implies(big_smiles_ext != '[]', self.preceding_characters == preceding_characters)": "characters-before-the-descriptor-kept",
    # class invariant of descriptors, established here: the empty symbol comes with no id, weight one and no list (only the text '[]' gives it)
    "implies(self.descriptor == '', big_smiles_ext == '[]' and self.descriptor_id == '' and self.weight == 1.0 and is_none(self.transitions))": "empty-symbol-only-for-the-empty-text",
    # what is NOT accepted (normal exit implies the text was well formed): C15
    "implies(big_smiles_ext != '[]', '@' not in preceding_characters and '/' not in preceding_characters and '\\\\' not in preceding_characters)": "stereo-characters-are-rejected",
    "implies(big_smiles_ext != '[]' and len(preceding_characters) > 0, big_smiles_ext[0] == '[' and big_smiles_ext[len(big_smiles_ext) - 1] == ']' "
    "and (big_smiles_ext[1] == '$' or big_smiles_ext[1] == '<' or big_smiles_ext[1] == '>'))": "only-bracketed-texts-with-a-known-symbol-are-accepted",
    "implies(big_smiles_ext != '[]' and len(preceding_characters) > 0 and '|' not in big_smiles_ext and len(big_smiles_ext) == 3, self.descriptor_id == '')": "no-id-written-means-empty-id",
    "implies(big_smiles_ext != '[]' and len(preceding_characters) > 0 and '|' not in big_smiles_ext and len(big_smiles_ext) > 3, "
    "self.descriptor_id == parse_int(big_smiles_ext[2:len(big_smiles_ext) - 1].strip()))": "a-written-id-is-the-number-between-symbol-and-bracket",
    "implies(not is_none(self.transitions), len(self.transitions) != 1 and self.weight == rsum(self.transitions))": "a-transition-list-has-not-one-entry-and-its-sum-is-the-weight",
}
contract("bond.BondDescriptor.__init__#parse", props=["C02", "C15"], merge_ifs=True,
         clause_props={"stereo-characters-are-rejected": ["C15"], "only-bracketed-texts-with-a-known-symbol-are-accepted": ["C15", "C02"]},
         params=dict(self=Ref("BondDescriptor"), big_smiles_ext=STR, descr_num=INT, preceding_characters=STR, atom_bonding_to=Opt(INT)), returns=None,
         ensures=list(_PARSE), labels=_PARSE,
         raises_may={"RuntimeError": "True", "ValueError": "True", "IndexError": "True"},
         modifies=["BondDescriptor._raw_text@self", "BondDescriptor.descriptor@self", "BondDescriptor.descriptor_id@self", "BondDescriptor.descriptor_num@self",
                   "BondDescriptor.weight@self", "BondDescriptor.transitions@self", "BondDescriptor.preceding_characters@self", "BondDescriptor.bond_type@self",
                   "BondDescriptor.bond_stereo@self", "BondDescriptor.atom_bonding_to@self"])


# ---- the text of one descriptor (C01): verified variant; the generator's callers keep the abstract contract in contracts/stochastic.py ---------------------------
from pyvc.sorts import BOOL
_TXT = {
    "implies(not extension or (is_none(self.transitions) and self.weight == 1.0), result == f'[{self.descriptor}{self.descriptor_id}]')": "without-extension-the-text-is-bracket-symbol-id-bracket",
    "implies(extension and is_none(self.transitions) and self.weight != 1.0, result == f'[{self.descriptor}{self.descriptor_id}|{self.weight}|]')": "a-single-weight-is-written-between-bars",
    "(result == '[]') == (self.descriptor == '' and (not extension or (is_none(self.transitions) and self.weight == 1.0)))": "the-text-is-the-empty-descriptor-exactly-for-the-empty-symbol",
}
contract("bond.BondDescriptor.generate_string#text", props=["C01"],
         params=dict(self=Ref("BondDescriptor"), extension=BOOL), returns=STR,
         requires=["implies(self.descriptor == '', self.descriptor_id == '')"],       # class invariant (established by __init__#parse: empty-symbol-only-for-the-empty-text)
         ensures=list(_TXT), labels=_TXT, modifies=[], allocates=False,
         loops={1: dict(anchor="t in self.transitions", inv=["len(string) >= 2 and string[0] == '['"], locals={"string": STR}, modifies=[], allocates=False)})


# ---- round trip of one descriptor text (C01), as a lemma over the two verified contracts: the text printed without extensions for a non-empty symbol (generate_string#text,
# first clause), parsed again behind some non-empty preceding characters (__init__#parse: symbol / id clauses), gives back symbol and id.  The only extra hypotheses are the
# axioms on builtins the engine uses everywhere: int(str(k).strip()) == k and str(k) is a non-empty text without '|'.
_RT_HYPS = ["(d.descriptor == '$' or d.descriptor == '<' or d.descriptor == '>') and len(pc) > 0",      # a descriptor with a non-empty symbol (lemma variables carry no sort invariant)
            "t == f'[{d.descriptor}{d.descriptor_id}]'",                                                   # generate_string#text, extension False
            "implies(t != '[]' and len(pc) > 0, p.descriptor == t[1])",                                    # __init__#parse
            "implies(t != '[]' and len(pc) > 0 and '|' not in t and len(t) == 3, p.descriptor_id == '')",
            "implies(t != '[]' and len(pc) > 0 and '|' not in t and len(t) > 3, p.descriptor_id == parse_int(t[2:len(t) - 1].strip()))",
            # axioms on int <-> text, at the id that is printed (n is that id when one is written)
            "implies(not (d.descriptor_id == ''), d.descriptor_id == n)",
            "parse_int(f'{n}'.strip()) == n and '|' not in f'{n}' and len(f'{n}') >= 1"]
_RT_VARS = dict(d=Ref("BondDescriptor"), p=Ref("BondDescriptor"), t=STR, pc=STR, n=INT)
lemma("descriptor_text_round_trip_symbol", _RT_VARS, "p.descriptor == d.descriptor", hyps=_RT_HYPS, props=["C01"],
      note="parse(print(d)) recovers the symbol of a weight-less descriptor; composed from the postconditions of the two verified functions")
lemma("descriptor_text_round_trip_no_id", _RT_VARS, "p.descriptor_id == ''", hyps=_RT_HYPS + ["d.descriptor_id == ''"], props=["C01"],
      note="parse(print(d)) of a descriptor without id has no id")
lemma("descriptor_text_round_trip_id", _RT_VARS, "p.descriptor_id == d.descriptor_id", hyps=_RT_HYPS + ["not (d.descriptor_id == '')"], props=["C01"],
      note="parse(print(d)) recovers the id of a weight-less descriptor")
