"""Contracts for src/gbigsmiles/mixture.py (the linked setters of C12)."""
from pyvc.registry import contract
from pyvc.sorts import BOOL, INT, REAL, Opt, Ref, STR

_SM = {
    "val(self._system_mass) == mass and not is_none(self._system_mass)": "stores-the-system-mass",
    "implies(not is_none(old(self._relative_mass)), not is_none(self._absolute_mass) and val(self._absolute_mass) == old(val(self._relative_mass)) / 100 * mass "
    "and self._relative_mass == old(self._relative_mass))": "percentage-given:absolute-is-that-percentage-of-the-system-mass",
    "implies(is_none(old(self._relative_mass)) and not is_none(old(self._absolute_mass)), not is_none(self._relative_mass) and "
    "val(self._relative_mass) * mass == 100 * old(val(self._absolute_mass)) and self._absolute_mass == old(self._absolute_mass))": "absolute-given:percentage-is-its-share-of-the-system-mass",
    "implies(is_none(old(self._relative_mass)) and is_none(old(self._absolute_mass)), is_none(self._relative_mass) and is_none(self._absolute_mass))": "nothing-given:nothing-invented",
}
contract("mixture.Mixture.system_mass@setter", props=["C12"],
         params=dict(self=Ref("Mixture"), mass=REAL), returns=None,
         raises={"RuntimeError": "mass < 0",
                 "ZeroDivisionError": "mass == 0 and is_none(self._relative_mass) and not is_none(self._absolute_mass)"},
         ensures=list(_SM), labels=_SM,
         modifies=["Mixture._system_mass", "Mixture._absolute_mass", "Mixture._relative_mass"], allocates=False)

_RM = {
    "val(self._relative_mass) == fraction and not is_none(self._relative_mass)": "stores-the-percentage",
    "implies(truthy(old(self._absolute_mass)), not is_none(self._system_mass) and val(self._system_mass) * fraction == 100 * old(val(self._absolute_mass)) "
    "and not is_none(self._absolute_mass) and val(self._absolute_mass) * 100 == fraction * val(self._system_mass))": "absolute-known:system-mass-follows-and-stays-consistent",
    "implies(not truthy(old(self._absolute_mass)), self._system_mass == old(self._system_mass) and self._absolute_mass == old(self._absolute_mass))": "absolute-unknown:nothing-else-changes",
}
contract("mixture.Mixture.relative_mass@setter", props=["C12"],
         params=dict(self=Ref("Mixture"), fraction=REAL), returns=None,
         raises={"RuntimeError": "fraction < 0 or fraction > 100 or (truthy(self._absolute_mass) and fraction > 0 and val(self._absolute_mass) / (fraction / 100) < 0)",
                 "ZeroDivisionError": "fraction == 0 and truthy(self._absolute_mass)"},
         ensures=list(_RM), labels=_RM,
         modifies=["Mixture._system_mass", "Mixture._absolute_mass", "Mixture._relative_mass"], allocates=False)

contract("mixture.Mixture.generate_string", props=["C01"],
         params=dict(self=Ref("Mixture"), extension=BOOL), returns=STR,
         ensures=["implies(not extension, result == '.')",
                  "implies(extension and is_none(self._absolute_mass), result == '.|' + str(self._relative_mass) + '%|')",
                  "implies(extension and not is_none(self._absolute_mass), result == '.|' + real_text(val(self._absolute_mass)) + '|')"],
         labels={"implies(not extension, result == '.')": "without-extensions-only-the-dot",
                 "implies(extension and is_none(self._absolute_mass), result == '.|' + str(self._relative_mass) + '%|')": "percentage-form",
                 "implies(extension and not is_none(self._absolute_mass), result == '.|' + real_text(val(self._absolute_mass)) + '|')": "absolute-form"},
         modifies=[], allocates=False)
