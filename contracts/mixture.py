"""Contracts for src/gbigsmiles/mixture.py (the linked setters of C12)."""
from pyvc.registry import contract
from pyvc.sorts import BOOL, INT, REAL, Opt, Ref, STR

_SM = {
    "val(self._system_mass) == mass and not is_none(self._system_mass)": "stores-the-system-mass",
    "implies(not is_none(old(self._relative_mass)), not is_none(self._absolute_mass) and val(self._absolute_mass) == old(val(self._relative_mass)) / 100 * mass "
    "and self._relative_mass == old(self._relative_mass))": "percentage-given:absolute-is-that-percentage-of-the-system-mass",
    "implies(is_none(old(self._relative_mass)) and not is_none(old(self._absolute_mass)), not is_none(self._relative_mass) and "
    "val(self._relative_mass) * mass == 100 * old(val(self._absolute_mass)) and self._absolute_mass == old(self._absolute_mass))": "absolute-given:percentage-is-its-share-of-the-system-mass",
    "implies(is_none(old(self._relative_mass)) and is_none(old(self._absolute_mass)), is_none(self._relative_mass) and is_none(self._absolute_mass))": "nothing-given:nothing-invented",
}
contract("mixture.Mixture.system_mass@setter", props=["C12"],
         params=dict(self=Ref("Mixture"), mass=REAL), returns=None,
         raises={"RuntimeError": "mass < 0",
                 "ZeroDivisionError": "mass == 0 and is_none(self._relative_mass) and not is_none(self._absolute_mass)"},
         ensures=list(_SM), labels=_SM,
         modifies=["Mixture._system_mass", "Mixture._absolute_mass", "Mixture._relative_mass"], allocates=False)

_RM = {
    "val(self._relative_mass) == fraction and not is_none(self._relative_mass)": "stores-the-percentage",
    "implies(truthy(old(self._absolute_mass)), not is_none(self._system_mass) and val(self._system_mass) * fraction == 100 * old(val(self._absolute_mass)) "
    "and not is_none(self._absolute_mass) and val(self._absolute_mass) * 100 == fraction * val(self._system_mass))": "absolute-known:system-mass-follows-and-stays-consistent",
    "implies(not truthy(old(self._absolute_mass)), self._system_mass == old(self._system_mass) and self._absolute_mass == old(self._absolute_mass))": "absolute-unknown:nothing-else-changes",
}
contract("mixture.Mixture.relative_mass@setter", props=["C12"],
         params=dict(self=Ref("Mixture"), fraction=REAL), returns=None,
         raises={"RuntimeError": "fraction < 0 or fraction > 100 or (truthy(self._absolute_mass) and fraction > 0 and val(self._absolute_mass) / (fraction / 100) < 0)",
                 "ZeroDivisionError": "fraction == 0 and truthy(self._absolute_mass)"},
         ensures=list(_RM), labels=_RM,
         modifies=["Mixture._system_mass", "Mixture._absolute_mass", "Mixture._relative_mass"], allocates=False)

contract("mixture.Mixture.generate_string", props=["C01"],
         params=dict(self=Ref("Mixture"), extension=BOOL), returns=STR,
         ensures=["implies(not extension, result == '.')",
                  "implies(extension and is_none(self._absolute_mass), result == '.|' + str(self._relative_mass) + '%|')",
                  "implies(extension and not is_none(self._absolute_mass), result == '.|' + real_text(val(self._absolute_mass)) + '|')"],
         labels={"implies(not extension, result == '.')": "without-extensions-only-the-dot",
                 "implies(extension and is_none(self._absolute_mass), result == '.|' + str(self._relative_mass) + '%|')": "percentage-form",
                 "implies(extension and not is_none(self._absolute_mass), result == '.|' + real_text(val(self._absolute_mass)) + '|')": "absolute-form"},
         modifies=[], allocates=False)


# ---- Mixture.__init__: '%' means percentage, otherwise absolute mass; out-of-range values are rejected (C12 / C15 / C02) -----------------------
# float(text) is an uninterpreted function of the text (parse_float), str.strip(chars) likewise: the clauses say WHICH text is parsed and what is done with the number
_PCT = "parse_float(raw_text[1:].strip('|%'))"
_ABS = "parse_float(raw_text[1:].strip('|'))"
_MI = {
    "raw_text[0] == '.'": "starts-with-the-dot",
    f"implies('%' in raw_text, not is_none(self._relative_mass) and val(self._relative_mass) == {_PCT} and is_none(self._absolute_mass))": "percent-sign-means-percentage-as-written",
    f"implies('%' in raw_text, 0 <= {_PCT} and {_PCT} <= 100)": "percentage-outside-0-100-is-rejected",
    f"implies(not ('%' in raw_text) and not is_none(self._absolute_mass), val(self._absolute_mass) == {_ABS} and {_ABS} >= 0 and is_none(self._relative_mass))": "otherwise-absolute-mass-as-written-and-not-negative",
    "is_none(self._system_mass) and self._raw_text == raw_text": "no-system-mass-yet",
}
contract("mixture.Mixture.__init__", props=["C12", "C15", "C02"],
         params=dict(self=Ref("Mixture"), raw_text=STR), returns=None,
         ensures=list(_MI), labels=_MI,
         raises_may={"RuntimeError": "True", "ValueError": "True", "IndexError": "True"},
         clause_props={"percentage-outside-0-100-is-rejected": ["C15", "C12"], "starts-with-the-dot": ["C15"], "cover": ["C12", "C15"]},
         modifies=["Mixture._raw_text@self", "Mixture._absolute_mass@self", "Mixture._relative_mass@self", "Mixture._system_mass@self"], allocates=False)
