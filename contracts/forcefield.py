"""Contracts for src/gbigsmiles/forcefield_helper.py (the assigner cache of C20) and the typing entry point of MolGen."""
from pyvc.registry import cls, contract, lemma, module_global, specfn
from pyvc.sorts import BOOL, INT, REAL, STR, Dict, NRef, Opaque, Opt, Ref, Tuple

# ghost fields: the file names an assigner object was built from
cls("SMARTS_ASSIGNMENTS", "forcefield_helper", built_smarts=Opt(STR), built_nb=Opt(STR),
    _type_dict=Dict(STR, INT), _type_dict_rev=Dict(INT, STR), _rule_dict=Dict(STR, STR), _type_param=Dict(STR, Ref("FFParam")))
cls("FFParam", "forcefield_helper", mass=REAL, charge=REAL, sigma=REAL, epsilon=REAL, bond_type_name=STR, bond_type_id=INT)
module_global("forcefield_helper", "_global_assignment_class", NRef("SMARTS_ASSIGNMENTS"))
module_global("forcefield_helper", "_global_smarts_rule_file", Opt(STR))
module_global("forcefield_helper", "_global_nonbonded_itp_file", Opt(STR))

contract("forcefield_helper.SMARTS_ASSIGNMENTS.__init__", trusted=True,
         why_trusted="reads the two parameter files (file I/O, not modelled); the ghost fields built_smarts / built_nb record the names it was given",
         props=["C20"], params=dict(self=Ref("SMARTS_ASSIGNMENTS"), smarts_filename=Opt(STR), nb_filename=Opt(STR)), returns=None,
         ensures=["self.built_smarts == smarts_filename and self.built_nb == nb_filename"],
         raises_may={"Exception": "True"},
         modifies=["SMARTS_ASSIGNMENTS.built_smarts@self", "SMARTS_ASSIGNMENTS.built_nb@self"], allocates=False)

# cache invariant: the cached assigner, if any, was built from the cached names
specfn('''
def cache_inv(c, s, n):
    return is_none(c) or (c.built_smarts == s and c.built_nb == n)
''')

_GAC = {
    "result is _global_assignment_class and not is_none(result)": "returns-the-cached-assigner",
    "result.built_smarts == smarts_filename and result.built_nb == nb_filename": "assigner-was-built-from-exactly-the-requested-files",
    "implies(result is old(_global_assignment_class), old(_global_smarts_rule_file) == smarts_filename and old(_global_nonbonded_itp_file) == nb_filename)": "cache-reused-only-for-the-same-two-names",
    "implies(not is_none(old(_global_assignment_class)) and old(_global_smarts_rule_file) == smarts_filename and old(_global_nonbonded_itp_file) == nb_filename, result is old(_global_assignment_class))": "same-names-reuse-the-cache",
    "cache_inv(_global_assignment_class, _global_smarts_rule_file, _global_nonbonded_itp_file)": "cache-invariant-kept",
}
_GAC_ALL = dict(_GAC)
contract("forcefield_helper.get_assignment_class", props=["C20"],
         params=dict(smarts_filename=Opt(STR), nb_filename=Opt(STR)), returns=Ref("SMARTS_ASSIGNMENTS"),
         requires=["cache_inv(_global_assignment_class, _global_smarts_rule_file, _global_nonbonded_itp_file)"],
         ensures=list(_GAC), labels=_GAC,
         raises_may={"Exception": "True"},
         # history-freedom also when building the assigner fails (a missing file): the cache must not be left claiming names it was not built from
         ensures_on_raise=["cache_inv(_global_assignment_class, _global_smarts_rule_file, _global_nonbonded_itp_file)"],
         modifies=["global.forcefield_helper._global_assignment_class", "global.forcefield_helper._global_smarts_rule_file",
                   "global.forcefield_helper._global_nonbonded_itp_file", "SMARTS_ASSIGNMENTS.built_smarts", "SMARTS_ASSIGNMENTS.built_nb"])


from pyvc.specs import ufunc as _ufunc
_ufunc("fflen", [Opaque("FFDict")], INT)        # number of atoms that received a parameter set

contract("forcefield_helper.SMARTS_ASSIGNMENTS.get_type_assignments", trusted=True,
         why_trusted="RDKit substructure matching over the rule table (dict / SMARTS machinery not modelled); its own last statement raises FfAssignmentError unless "
                     "len(final_dict) == mol.GetNumAtoms(): that totality is what is assumed here and what the bounded C20 driver checks on the real code",
         props=["C20"], params=dict(self=Ref("SMARTS_ASSIGNMENTS"), mol=Opaque("Mol")), returns=Opaque("FFDict"),
         ensures=["fflen(result) == natoms(mol)"], raises_may={"FfAssignmentError": "True"}, modifies=[], allocates=False)

_GFT = {"len(self.bond_descriptors) == 0": "only-fully-generated-molecules-are-typed",
        "fflen(result[0]) == natoms(result[1])": "every-atom-of-the-returned-molecule-has-a-parameter-set"}
contract("mol_gen.MolGen.get_forcefield_types", props=["C20"],
         params=dict(self=Ref("MolGen"), smarts_filename=Opt(STR), nb_filename=Opt(STR)), defaults={"smarts_filename": None, "nb_filename": None},
         returns=Tuple(Opaque("FFDict"), Opaque("Mol")),
         requires=["cache_inv(_global_assignment_class, _global_smarts_rule_file, _global_nonbonded_itp_file)"],
         raises={"RuntimeError": "len(self.bond_descriptors) != 0"},
         raises_may={"FfAssignmentError": "True", "Exception": "True"},
         ensures=list(_GFT), labels=_GFT,
         modifies=["global.forcefield_helper._global_assignment_class", "global.forcefield_helper._global_smarts_rule_file",
                   "global.forcefield_helper._global_nonbonded_itp_file", "SMARTS_ASSIGNMENTS.built_smarts", "SMARTS_ASSIGNMENTS.built_nb"])


# ---- the rule table of the assigner (C20: "exactly one parameter set per atom ... depends only on the chemistry") ---------------------------------------------
# Every atom's parameters are looked up as  _type_param[get_type(get_type(type name of the winning rule))]  : name -> numeric id -> name.  That round trip is the
# identity exactly when names and ids determine each other; this representation invariant is what _read_smarts_rules establishes, whatever the file contains.
_TABLE = {
    "forall_str(lambda t: implies(t in self._type_dict, self._type_dict[t] in self._type_dict_rev and self._type_dict_rev[self._type_dict[t]] == t))":
        "every-type-name-maps-to-an-id-that-maps-back-to-it",
    "forall(lambda i: implies(i in self._type_dict_rev, self._type_dict_rev[i] in self._type_dict and self._type_dict[self._type_dict_rev[i]] == i))":
        "every-id-maps-to-a-name-that-maps-back-to-it",
    "forall_str(lambda r: implies(r in self._rule_dict, self._rule_dict[r] in self._type_dict))": "every-rule-names-a-type-that-has-an-id",
}
_IDS = "opls_counter >= 0 and forall(lambda i: implies(i in self._type_dict_rev, 0 <= i and i < opls_counter))"
contract("forcefield_helper.SMARTS_ASSIGNMENTS._read_smarts_rules", props=["C20"],
         params=dict(self=Ref("SMARTS_ASSIGNMENTS"), filename=Opt(STR)), returns=None,
         ensures=list(_TABLE), labels={**_TABLE, _IDS: "ids-are-the-numbers-below-the-counter"},
         raises_may={"OSError": "True", "ValueError": "True"},          # unreadable file; a rule line that does not have four '|'-separated columns
         modifies=["SMARTS_ASSIGNMENTS._type_dict@self", "SMARTS_ASSIGNMENTS._type_dict_rev@self", "SMARTS_ASSIGNMENTS._rule_dict@self"],
         loops={1: dict(anchor="line in smarts_file", locals={"opls_counter": INT},
                        modifies=["dict@self._type_dict", "dict@self._type_dict_rev", "dict@self._rule_dict"],
                        inv=list(_TABLE) + [_IDS])})

# get_type translates in both directions: an id to its name, a name to its id (KeyError for anything else)
_GT_ID = {"result == self._type_dict_rev[type]": "an-id-is-translated-to-its-name"}
contract("forcefield_helper.SMARTS_ASSIGNMENTS.get_type#by_id", props=["C20"],
         params=dict(self=Ref("SMARTS_ASSIGNMENTS"), type=INT), returns=STR,
         raises={"KeyError": "type not in self._type_dict_rev"}, ensures=list(_GT_ID), labels=_GT_ID, modifies=[], allocates=False)
_GT_NAME = {"result == self._type_dict[type]": "a-name-is-translated-to-its-id"}
contract("forcefield_helper.SMARTS_ASSIGNMENTS.get_type#by_name", props=["C20"],
         params=dict(self=Ref("SMARTS_ASSIGNMENTS"), type=STR), returns=INT,
         raises={"KeyError": "type not in self._type_dict"}, ensures=list(_GT_NAME), labels=_GT_NAME, modifies=[], allocates=False)
_GP = {"result is self._type_param[self._type_dict_rev[type]]": "the-parameter-set-of-the-name-the-id-stands-for"}
contract("forcefield_helper.SMARTS_ASSIGNMENTS.get_ffparam#by_id", props=["C20"],
         params=dict(self=Ref("SMARTS_ASSIGNMENTS"), type=INT), returns=Ref("FFParam"),
         raises={"KeyError": "type not in self._type_dict_rev or self._type_dict_rev[type] not in self._type_param"},
         ensures=list(_GP), labels=_GP, modifies=[], allocates=False)

# the look-up of get_type_assignments, get_ffparam(get_type(_rule_dict[rule])), reaches the parameter set of the type the rule names: name -> id -> name is the identity
lemma("typing_lookup_is_by_the_rules_own_type", dict(a=Ref("SMARTS_ASSIGNMENTS"), r=STR),
      "a._rule_dict[r] in a._type_dict and a._type_dict[a._rule_dict[r]] in a._type_dict_rev and a._type_dict_rev[a._type_dict[a._rule_dict[r]]] == a._rule_dict[r]",
      hyps=[c.replace("self.", "a.") for c in _TABLE] + ["r in a._rule_dict"], props=["C20"],
      note="instance of the table invariant established by _read_smarts_rules; with get_type#by_name / get_type#by_id / get_ffparam#by_id this is "
           "get_ffparam(get_type(name)) is _type_param[name]")
