"""Contracts for src/gbigsmiles/forcefield_helper.py (the assigner cache of C20) and the typing entry point of MolGen."""
from pyvc.registry import cls, contract, module_global, specfn
from pyvc.sorts import BOOL, INT, REAL, STR, NRef, Opaque, Opt, Ref, Tuple

# ghost fields: the file names an assigner object was built from
cls("SMARTS_ASSIGNMENTS", "forcefield_helper", built_smarts=Opt(STR), built_nb=Opt(STR))
module_global("forcefield_helper", "_global_assignment_class", NRef("SMARTS_ASSIGNMENTS"))
module_global("forcefield_helper", "_global_smarts_rule_file", Opt(STR))
module_global("forcefield_helper", "_global_nonbonded_itp_file", Opt(STR))

contract("forcefield_helper.SMARTS_ASSIGNMENTS.__init__", trusted=True,
         why_trusted="reads the two parameter files (file I/O, not modelled); the ghost fields built_smarts / built_nb record the names it was given",
         props=["C20"], params=dict(self=Ref("SMARTS_ASSIGNMENTS"), smarts_filename=Opt(STR), nb_filename=Opt(STR)), returns=None,
         ensures=["self.built_smarts == smarts_filename and self.built_nb == nb_filename"],
         raises_may={"Exception": "True"},
         modifies=["SMARTS_ASSIGNMENTS.built_smarts@self", "SMARTS_ASSIGNMENTS.built_nb@self"], allocates=False)

# cache invariant: the cached assigner, if any, was built from the cached names
specfn('''
def cache_inv(c, s, n):
    return is_none(c) or (c.built_smarts == s and c.built_nb == n)
''')

_GAC = {
    "result is _global_assignment_class and not is_none(result)": "returns-the-cached-assigner",
    "result.built_smarts == smarts_filename and result.built_nb == nb_filename": "assigner-was-built-from-exactly-the-requested-files",
    "implies(result is old(_global_assignment_class), old(_global_smarts_rule_file) == smarts_filename and old(_global_nonbonded_itp_file) == nb_filename)": "cache-reused-only-for-the-same-two-names",
    "implies(not is_none(old(_global_assignment_class)) and old(_global_smarts_rule_file) == smarts_filename and old(_global_nonbonded_itp_file) == nb_filename, result is old(_global_assignment_class))": "same-names-reuse-the-cache",
    "cache_inv(_global_assignment_class, _global_smarts_rule_file, _global_nonbonded_itp_file)": "cache-invariant-kept",
}
_GAC_ALL = dict(_GAC)
contract("forcefield_helper.get_assignment_class", props=["C20"],
         params=dict(smarts_filename=Opt(STR), nb_filename=Opt(STR)), returns=Ref("SMARTS_ASSIGNMENTS"),
         requires=["cache_inv(_global_assignment_class, _global_smarts_rule_file, _global_nonbonded_itp_file)"],
         ensures=list(_GAC), labels=_GAC,
         raises_may={"Exception": "True"},
         # history-freedom also when building the assigner fails (a missing file): the cache must not be left claiming names it was not built from
         ensures_on_raise=["cache_inv(_global_assignment_class, _global_smarts_rule_file, _global_nonbonded_itp_file)"],
         modifies=["global.forcefield_helper._global_assignment_class", "global.forcefield_helper._global_smarts_rule_file",
                   "global.forcefield_helper._global_nonbonded_itp_file", "SMARTS_ASSIGNMENTS.built_smarts", "SMARTS_ASSIGNMENTS.built_nb"])


from pyvc.specs import ufunc as _ufunc
_ufunc("fflen", [Opaque("FFDict")], INT)        # number of atoms that received a parameter set

contract("forcefield_helper.SMARTS_ASSIGNMENTS.get_type_assignments", trusted=True,
         why_trusted="RDKit substructure matching over the rule table (dict / SMARTS machinery not modelled); its own last statement raises FfAssignmentError unless "
                     "len(final_dict) == mol.GetNumAtoms(): that totality is what is assumed here and what the bounded C20 driver checks on the real code",
         props=["C20"], params=dict(self=Ref("SMARTS_ASSIGNMENTS"), mol=Opaque("Mol")), returns=Opaque("FFDict"),
         ensures=["fflen(result) == natoms(mol)"], raises_may={"FfAssignmentError": "True"}, modifies=[], allocates=False)

_GFT = {"len(self.bond_descriptors) == 0": "only-fully-generated-molecules-are-typed",
        "fflen(result[0]) == natoms(result[1])": "every-atom-of-the-returned-molecule-has-a-parameter-set"}
contract("mol_gen.MolGen.get_forcefield_types", props=["C20"],
         params=dict(self=Ref("MolGen"), smarts_filename=Opt(STR), nb_filename=Opt(STR)), defaults={"smarts_filename": None, "nb_filename": None},
         returns=Tuple(Opaque("FFDict"), Opaque("Mol")),
         requires=["cache_inv(_global_assignment_class, _global_smarts_rule_file, _global_nonbonded_itp_file)"],
         raises={"RuntimeError": "len(self.bond_descriptors) != 0"},
         raises_may={"FfAssignmentError": "True", "Exception": "True"},
         ensures=list(_GFT), labels=_GFT,
         modifies=["global.forcefield_helper._global_assignment_class", "global.forcefield_helper._global_smarts_rule_file",
                   "global.forcefield_helper._global_nonbonded_itp_file", "SMARTS_ASSIGNMENTS.built_smarts", "SMARTS_ASSIGNMENTS.built_nb"])
