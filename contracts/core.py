"""Contracts for src/gbigsmiles/core.py"""
from pyvc.registry import contract, specfn
from pyvc.externals import NpList
from pyvc.sorts import BOOL, INT, REAL, List, NRef, Ref, Opaque
from .common import GENERATOR

# candidate positions: compatible with `bond`, or all positions when bond is None  (C03 filter, C08 candidate set)
specfn('''
def cand_ok(bds, bond, i):
    return is_none(bond) or compat_spec(bond, bds[i])
''')

# completeness of an increasing list `res` of positions below n, without an existential: every position that is not
# listed (before the first, between two neighbours, after the last) is not a candidate.  With `increasing` and
# `only-compatible` this is equivalent to "i is listed  iff  0 <= i < n and cand_ok(i)".
specfn('''
def no_gap(res, n, bds, bond):
    return (forall(lambda i: implies(0 <= i and i < n and (len(res) == 0 or i < res[0]), not cand_ok(bds, bond, i)))
            and forall(lambda k, i: implies(0 <= k and k + 1 < len(res) and res[k] < i and i < res[k + 1], not cand_ok(bds, bond, i)))
            and forall(lambda i: implies(len(res) > 0 and res[len(res) - 1] < i and i < n, not cand_ok(bds, bond, i))))
''')

contract("core.get_compatible_bond_descriptor_ids",
         props=["C03", "C08"],
         params=dict(bond_descriptors=List(Ref("BondDescriptor")), bond=NRef("BondDescriptor")),
         returns=NpList(INT),
         ensures=[
             "forall(lambda k: implies(0 <= k and k < len(result), 0 <= result[k] and result[k] < len(bond_descriptors) and cand_ok(bond_descriptors, bond, result[k])))",
             "forall(lambda a, b: implies(0 <= a and a < b and b < len(result), result[a] < result[b]))",
             "no_gap(result, len(bond_descriptors), bond_descriptors, bond)",
             "implies(is_none(bond), len(result) == len(bond_descriptors) and forall(lambda k: implies(0 <= k and k < len(result), result[k] == k)))",
             "fresh(result)",
         ],
         labels={
             "forall(lambda k: implies(0 <= k and k < len(result), 0 <= result[k] and result[k] < len(bond_descriptors) and cand_ok(bond_descriptors, bond, result[k])))": "only-compatible",
             "forall(lambda a, b: implies(0 <= a and a < b and b < len(result), result[a] < result[b]))": "increasing",
             "no_gap(result, len(bond_descriptors), bond_descriptors, bond)": "all-compatible",
             "implies(is_none(bond), len(result) == len(bond_descriptors) and forall(lambda k: implies(0 <= k and k < len(result), result[k] == k)))": "none-means-all",
             "fresh(result)": "fresh",
         },
         modifies=[],
         loops={1: dict(
             anchor="(i, other) in enumerate(bond_descriptors)",
             locals={"compatible_idx": List(INT)},
             modifies=["list"],
             inv=[
                 "fresh(compatible_idx) and unchanged('list')",
                 "len(compatible_idx) <= _i1",
                 "forall(lambda k: implies(0 <= k and k < len(compatible_idx), 0 <= compatible_idx[k] and compatible_idx[k] < _i1 and cand_ok(bond_descriptors, bond, compatible_idx[k])))",
                 "forall(lambda a, b: implies(0 <= a and a < b and b < len(compatible_idx), compatible_idx[a] < compatible_idx[b]))",
                 "no_gap(compatible_idx, _i1, bond_descriptors, bond)",
                 "implies(is_none(bond), len(compatible_idx) == _i1 and forall(lambda k: implies(0 <= k and k < len(compatible_idx), compatible_idx[k] == k)))",
             ],
             labels={}, allocates=False)})

# ---------------------------------------------------------------------------------------------------------------
# C08: one weighted pick among the candidates.  The postcondition is the property's wording:
#   candidates = compatible positions (all positions when bond is None), in increasing order;
#   probabilities proportional to the written weights, uniform when all candidate weights are equal (also all zero);
#   an option of probability zero is never taken; exactly one draw from the supplied generator.
# "proportional" is stated with a ghost witness:  p[k] * last_norm == w[k]  for every candidate k with one last_norm > 0;
# sum(p) == 1 is part of the trusted contract of Generator.choice (it raises ValueError otherwise), which fixes
# last_norm to the sum of the candidate weights.
specfn('''
def cw(bds, k):
    return bds[last_cand[k]].weight
''')

_CCW_ENS = {
    "choices == old(choices) + 1 and last_rng == rng": "one-draw-from-rng",
    "last_n > 0 and forall(lambda k: implies(0 <= k and k < last_n, 0 <= last_cand[k] and last_cand[k] < len(bond_descriptors) and cand_ok(bond_descriptors, bond, last_cand[k])))": "candidates-compatible",
    "forall(lambda a, b: implies(0 <= a and a < b and b < last_n, last_cand[a] < last_cand[b]))": "candidates-increasing",
    "forall(lambda i: implies(0 <= i and i < len(bond_descriptors) and i < last_cand[0], not cand_ok(bond_descriptors, bond, i)))": "candidates-complete-before",
    "forall(lambda k, i: implies(0 <= k and k + 1 < last_n and last_cand[k] < i and i < last_cand[k + 1], not cand_ok(bond_descriptors, bond, i)))": "candidates-complete-between",
    "forall(lambda i: implies(last_cand[last_n - 1] < i and i < len(bond_descriptors), not cand_ok(bond_descriptors, bond, i)))": "candidates-complete-after",
    "implies(is_none(bond), last_n == len(bond_descriptors) and forall(lambda k: implies(0 <= k and k < last_n, last_cand[k] == k)))": "no-bond-means-every-position-is-a-candidate",
    "implies(forall(lambda k: implies(0 <= k and k < last_n, cw(bond_descriptors, k) == cw(bond_descriptors, 0))), forall(lambda a, b: implies(0 <= a and a < last_n and 0 <= b and b < last_n, last_p[a] == last_p[b])))": "equal-weights-uniform",
    "implies(not forall(lambda k: implies(0 <= k and k < last_n, cw(bond_descriptors, k) == cw(bond_descriptors, 0))), last_norm > 0 and forall(lambda k: implies(0 <= k and k < last_n, last_p[k] * last_norm == cw(bond_descriptors, k))))": "proportional-to-weights",
    "0 <= last_pick and last_pick < last_n and last_p[last_pick] > 0 and result == last_cand[last_pick]": "zero-probability-never-taken",
    "unchanged('list')": "lists-unchanged",
}

contract("core.choose_compatible_weight",
         props=["C08"],
         params=dict(bond_descriptors=List(Ref("BondDescriptor")), bond=NRef("BondDescriptor"), rng=GENERATOR),
         returns=INT,
         requires=["forall(lambda k: implies(0 <= k and k < len(bond_descriptors), bond_descriptors[k].weight >= 0))"],
         ensures=list(_CCW_ENS),
         labels=dict(_CCW_ENS, **{"forall(lambda k: implies(0 <= k and k < len(bond_descriptors), bond_descriptors[k].weight >= 0))": "weights-nonnegative"}),
         # ValueError comes from Generator.choice (no candidate, or a degenerate probability vector).  "Raises only when
         # there is no candidate" needs sum reasoning the solvers leave open (tried: undecided at 60 s), so the contract
         # only says it MAY raise; the normal-return clauses carry "a candidate exists" (candidates-compatible, last_n > 0).
         raises_may={"ValueError": "True"},
         modifies=["ghost.choices", "ghost.last_p", "ghost.last_n", "ghost.last_pick", "ghost.last_rng", "ghost.last_cand", "ghost.last_norm"],
         # ghost: the common divisor of the probability vector (witness of "proportional": p[k] * last_norm == weight[k])
         ghost_before={"weights /= np.sum(weights)": ["last_norm = rsum(weights)"]},
         loops={1: dict(
             anchor="i in compatible_idx",
             locals={"weights": List(REAL)},
             modifies=["list"],
             inv=["fresh(weights) and fresh(compatible_idx) and weights is not compatible_idx",
                  "loop_lists_unchanged_except(weights)",
                  "len(weights) == _i1",
                  "forall(lambda k: implies(0 <= k and k < _i1, weights[k] == bond_descriptors[compatible_idx[k]].weight))"],
             allocates=False)})
