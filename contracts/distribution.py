"""Contracts for src/gbigsmiles/distribution.py (C09 plumbing, C11 coherence, C15 unknown name).

The specification is the documentation quoted by the property:  gauss(mean, sigma), uniform(low, high), schulz_zimm(Mw, Mn),
log_normal(Mn, dispersity), poisson(mean), flory_schulz(a).  doc_family / doc_p1 / doc_p2 say, per class, which law with which
parameters an object DENOTES (in terms of its stored fields, first written number first); the contracts below state that every
draw and every probability query uses exactly that law, that the stored fields are the numbers written in that order, and that
the text form prints them back in that order.  scipy itself is trusted (pyvc/externals_stats.py).
"""
from pyvc.registry import contract, lemma, specfn
from pyvc.sorts import BOOL, INT, REAL, STR, NRef, Opaque, Ref
from pyvc import externals_stats  # noqa: F401  (assumed contracts of scipy.stats)
from .common import GENERATOR

NGEN = Opaque("Generator", True)
CH = "'| \\t\\n'"          # the characters Distribution.__init__ strips

specfn('''
def doc_family(d):
    return ite(isinstance(d, Gauss), LAW.NORM, ite(isinstance(d, Uniform), LAW.UNIFORM, ite(isinstance(d, Poisson), LAW.POISSON,
           ite(isinstance(d, FlorySchulz), LAW.FS, ite(isinstance(d, SchulzZimm), LAW.SZ, LAW.LN)))))
''')
# first parameter of the law: mean | low | mean | a | z = Mn / (Mw - Mn) | Mn
specfn('''
def doc_p1(d):
    return ite(isinstance(d, Gauss), d._mu, ite(isinstance(d, Uniform), d._low, ite(isinstance(d, Poisson), d._N,
           ite(isinstance(d, FlorySchulz), d._a, ite(isinstance(d, SchulzZimm), d._Mn / (d._Mw - d._Mn), d._M)))))
''')
# second parameter: sigma | high | - | - | Mn | dispersity
specfn('''
def doc_p2(d):
    return ite(isinstance(d, Gauss), d._sigma, ite(isinstance(d, Uniform), d._high, ite(isinstance(d, Poisson), 0.0,
           ite(isinstance(d, FlorySchulz), 0.0, ite(isinstance(d, SchulzZimm), d._Mn, d._D)))))
''')
# object invariant: the scipy object held is the one the class denotes (frozen laws carry their parameters themselves)
specfn('''
def dist_inv(d):
    return (not is_none(d._distribution) and law_family(d._distribution) == doc_family(d)
            and implies(isinstance(d, Gauss) or isinstance(d, Uniform) or isinstance(d, Poisson),
                        law_p1(d._distribution) == doc_p1(d) and law_p2(d._distribution) == doc_p2(d))
            and implies(isinstance(d, SchulzZimm), d._z == d._Mn / (d._Mw - d._Mn)))
''')

DIST_FIELDS = ["Distribution._raw_text", "Distribution._distribution"]

contract("distribution.Distribution.__init__", props=["C11"],
         params=dict(self=Ref("Distribution"), raw_text=STR), returns=None,
         ensures=[f"self._raw_text == raw_text.strip({CH})", "is_none(self._distribution)"],
         labels={f"self._raw_text == raw_text.strip({CH})": "stores-the-stripped-text", "is_none(self._distribution)": "no-law-yet"},
         modifies=DIST_FIELDS, allocates=False)

# ---- constructors: name check, parameters in written order, the scipy object of the documented law --------------------------------------
_CT = {
    "FlorySchulz": ("flory_schulz", ["FlorySchulz._a"],
                    ["self._a == lit_num(self._raw_text[12:], 0)"]),
    "SchulzZimm": ("schulz_zimm", ["SchulzZimm._Mw", "SchulzZimm._Mn", "SchulzZimm._z"],
                   ["self._Mw == lit_num(self._raw_text[11:], 0) and self._Mn == lit_num(self._raw_text[11:], 1)"]),
    "Gauss": ("gauss", ["Gauss._mu", "Gauss._sigma"],
              ["self._mu == lit_num(self._raw_text[5:], 0) and self._sigma == lit_num(self._raw_text[5:], 1)"]),
    "Uniform": ("uniform", ["Uniform._low", "Uniform._high"],
                ["self._low == trunc(lit_num(self._raw_text[7:], 0)) and self._high == trunc(lit_num(self._raw_text[7:], 1))"]),
    "LogNormal": ("log_normal", ["LogNormal._M", "LogNormal._D"],
                  ["self._M == lit_num(self._raw_text[10:], 0) and self._D == lit_num(self._raw_text[10:], 1)"]),
    "Poisson": ("poisson", ["Poisson._N"],
                ["self._N == parse_float(self._raw_text[8:-1])"]),
}
for _cls, (_name, _flds, _par) in _CT.items():
    _ens = {f"self._raw_text == raw_text.strip({CH}) and self._raw_text.startswith('{_name}')": "text-starts-with-the-family-name",
            _par[0]: "parameters-are-the-written-numbers-in-documented-order",
            "dist_inv(self)": "holds-the-scipy-object-of-the-documented-law"}
    contract(f"distribution.{_cls}.__init__", props=["C09", "C11", "C02"],
             params=dict(self=Ref(_cls), raw_text=STR), returns=None,
             raises={"RuntimeError": f"not raw_text.strip({CH}).startswith('{_name}')"},
             raises_may={"ValueError": "True", "SyntaxError": "True", "TypeError": "True", "ZeroDivisionError": "True"},
             ensures=list(_ens), labels=_ens,
             clause_props={"RuntimeError": ["C15", "C11"], "text-starts-with-the-family-name": ["C09", "C11", "C02"],
                           "parameters-are-the-written-numbers-in-documented-order": ["C09", "C11", "C02"],
                           "holds-the-scipy-object-of-the-documented-law": ["C09", "C11"], "cover": ["C09", "C11", "C02"]},
             modifies=DIST_FIELDS + _flds)

# ---- name -> family ------------------------------------------------------------------------------------------------------------------------
_GD = {"'flory_schulz' in distribution_text or 'gauss' in distribution_text or 'uniform' in distribution_text or 'schulz_zimm' in distribution_text "
       "or 'log_normal' in distribution_text or 'poisson' in distribution_text": "unknown-distribution-name-is-rejected",
       "dist_inv(result) and fresh(result)": "result-holds-the-law-it-denotes"}
for _cls, (_name, _f, _p) in _CT.items():
    _GD[f"isinstance(result, {_cls}) == distribution_text.strip({CH}).startswith('{_name}')"] = f"family-{_name}-iff-the-text-starts-with-its-name"
contract("distribution.get_distribution", props=["C11", "C09", "C15", "C02"],
         params=dict(distribution_text=STR), returns=Ref("Distribution"),
         raises_may={"RuntimeError": "True", "ValueError": "True", "SyntaxError": "True", "TypeError": "True", "ZeroDivisionError": "True"},
         ensures=list(_GD), labels=_GD,
         clause_props={"unknown-distribution-name-is-rejected": ["C15", "C11"], "result-holds-the-law-it-denotes": ["C09", "C11"], "cover": ["C09", "C11", "C15"],
                       **{f"family-{_c[0]}-iff-the-text-starts-with-its-name": ["C09", "C11", "C02"] for _c in _CT.values()}},
         modifies=DIST_FIELDS + sorted({f for _c in _CT.values() for f in _c[1]}))

# ---- one draw: from the declared law, with the declared parameters, using only the supplied generator (C09, C10) -----------------------------
_DRAW = {
    "draws == old(draws) + 1 and last_draw == result": "exactly-one-sample-is-the-result",
    "last_draw_rng == ite(is_none(rng), _GLOBAL_RNG, rng)": "uses-the-supplied-generator",
    "last_draw_family == doc_family(self) and last_draw_p1 == doc_p1(self) and last_draw_p2 == doc_p2(self)": "sample-of-the-declared-law-with-the-declared-parameters",
}
for _cls in ("Distribution", "FlorySchulz", "SchulzZimm", "LogNormal"):
    contract(f"distribution.{_cls}.draw_mw", props=["C09", "C07", "C11", "C10"],
             params=dict(self=Ref("Gauss|Uniform|Poisson" if _cls == "Distribution" else _cls), rng=NGEN), returns=REAL, defaults={"rng": None},
             requires=["dist_inv(self)"],
             ensures=list(_DRAW), labels=_DRAW,
             raises_may={"RuntimeError": "True"},
             clause_props={"uses-the-supplied-generator": ["C10", "C09", "C11"], "exactly-one-sample-is-the-result": ["C09", "C11", "C07"],
                           "sample-of-the-declared-law-with-the-declared-parameters": ["C09", "C11"], "cover": ["C09", "C11"], "raises-only": ["C09", "C11"]},
             modifies=["ghost.draws", "ghost.last_draw", "ghost.last_draw_rng", "ghost.last_draw_family", "ghost.last_draw_p1", "ghost.last_draw_p2"],
             allocates=False)

# ---- probability of a mass interval / density at a point (C11; C19 uses the interval form) ---------------------------------------------------
for _n, _f in (("value", "_value"), ("previous", "_previous")):
    contract(f"mol_prob.RememberAdd.{_n}", is_property=True, props=["C11", "C19"],
             params=dict(self=Ref("RememberAdd")), returns=REAL, value=f"self.{_f}",
             ensures=[f"result == self.{_f}"], labels={f"result == self.{_f}": "getter"}, modifies=[], allocates=False)

_CDF = "cdf_at(doc_family(self), doc_p1(self), doc_p2(self), mw._value) - cdf_at(doc_family(self), doc_p1(self), doc_p2(self), mw._previous)"
_INT = {f"result == {_CDF}": "interval-probability-is-the-cdf-difference-of-this-law-with-its-own-parameters"}
_INT_G = {f"implies(self._sigma >= 0.000001, result == {_CDF})": "interval-probability-is-the-cdf-difference-of-this-law-with-its-own-parameters",
          "implies(self._sigma < 0.000001, result == ite(mw._previous < self._mu and self._mu <= mw._value, 1.0, 0.0))": "zero-width-gauss-is-a-point-mass-at-the-mean"}
for _cls in ("Distribution", "FlorySchulz", "SchulzZimm", "LogNormal", "Gauss", "Poisson"):
    _selfsort = {"Distribution": "Gauss|Uniform|Poisson"}.get(_cls, _cls)
    _e = _INT_G if _cls == "Gauss" else _INT
    contract(f"distribution.{_cls}.prob_mw#interval", props=["C11", "C19"],
             params=dict(self=Ref(_selfsort), mw=Ref("RememberAdd")), returns=REAL,
             requires=["dist_inv(self)"], ensures=list(_e), labels=_e, modifies=[], allocates=False)

_PT_PDF = "result == pdf_at(doc_family(self), doc_p1(self), doc_p2(self), mw)"
_PT_PMF = "result == pmf_at(doc_family(self), doc_p1(self), doc_p2(self), trunc(mw))"
contract("distribution.Distribution.prob_mw#point", props=["C11"],
         params=dict(self=Ref("Gauss|Uniform|Poisson"), mw=REAL), returns=REAL, requires=["dist_inv(self)"],
         raises={"AttributeError": "isinstance(self, Poisson)"},
         ensures=[_PT_PDF], labels={_PT_PDF: "density-of-this-law-with-its-own-parameters"}, modifies=[], allocates=False)
for _cls in ("FlorySchulz", "SchulzZimm", "Poisson"):
    contract(f"distribution.{_cls}.prob_mw#point", props=["C11"],
             params=dict(self=Ref(_cls), mw=REAL), returns=REAL, requires=["dist_inv(self)"],
             ensures=[_PT_PMF], labels={_PT_PMF: "mass-function-of-this-law-with-its-own-parameters"}, modifies=[], allocates=False)
contract("distribution.LogNormal.prob_mw#point", props=["C11"],
         params=dict(self=Ref("LogNormal"), mw=REAL), returns=REAL, requires=["dist_inv(self)"],
         ensures=[_PT_PDF], labels={_PT_PDF: "density-of-this-law-with-its-own-parameters"}, modifies=[], allocates=False)
_G_PT = {"implies(self._sigma >= 0.000001 or abs(self._mu - mw) >= 0.000001, " + _PT_PDF + ")": "density-of-this-law-with-its-own-parameters",
         "implies(self._sigma < 0.000001 and abs(self._mu - mw) < 0.000001, result == 1.0)": "zero-width-gauss-point-mass"}
contract("distribution.Gauss.prob_mw#point", props=["C11"],
         params=dict(self=Ref("Gauss"), mw=REAL), returns=REAL, requires=["dist_inv(self)"],
         ensures=list(_G_PT), labels=_G_PT, modifies=[], allocates=False)

# ---- the custom laws are the documented formulas (pow / exp / gamma / log / sqrt uninterpreted) ------------------------------------------------
contract("distribution.FlorySchulz.flory_schulz_gen._pmf", props=["C09", "C11"],
         params=dict(self=Opaque("RvGen"), k=REAL, a=REAL), returns=REAL,
         ensures=["result == a ** 2 * k * (1 - a) ** (k - 1)"], labels={"result == a ** 2 * k * (1 - a) ** (k - 1)": "flory-schulz-mass-function-as-documented"},
         modifies=[], allocates=False)
_SZ = "result == z ** (z + 1) / rgamma(z + 1) * M ** (z - 1) / Mn ** z * rexp(-z * M / Mn)"
contract("distribution.SchulzZimm.schulz_zimm_gen._pmf", props=["C09", "C11"],
         params=dict(self=Opaque("RvGen"), M=REAL, z=REAL, Mn=REAL), returns=REAL,
         ensures=[_SZ], labels={_SZ: "schulz-zimm-mass-function-as-documented"}, raises_may={"ZeroDivisionError": "True"}, modifies=[], allocates=False)
_LN = "result == 1 / (m * rsqrt(2 * np_pi * rlog(D))) * rexp(-((rlog(m / M) + rlog(D) / 2) ** 2) / (2 * rlog(D)))"
contract("distribution.LogNormal.log_normal_gen._pdf", props=["C09", "C11"],
         params=dict(self=Opaque("RvGen"), m=REAL, M=REAL, D=REAL), returns=REAL,
         ensures=[_LN], labels={_LN: "log-normal-density-as-documented"}, raises_may={"ZeroDivisionError": "True"}, modifies=[], allocates=False)

# ---- text form: prints the stored parameters in the documented order; nothing without extensions (C11, C01) --------------------------------------
_GS = {
    "FlorySchulz": "'|flory_schulz(' + real_text(self._a) + ')|'",
    "SchulzZimm": "'|schulz_zimm(' + real_text(self._Mw) + ', ' + real_text(self._Mn) + ')|'",
    "Gauss": "'|gauss(' + real_text(self._mu) + ', ' + real_text(self._sigma) + ')|'",
    "Uniform": "'|uniform(' + real_text(self._low) + ', ' + real_text(self._high) + ')|'",     # number text is abstract: int / float spelling is not modelled
    "LogNormal": "'|log_normal(' + real_text(self._M) + ', ' + real_text(self._D) + ')|'",
    "Poisson": "'|poisson(' + real_text(self._N) + ')|'",
}
for _cls, _txt in _GS.items():
    _e = {f"implies(extension, result == {_txt})": "text-form-reproduces-the-parameters-in-documented-order",
          "implies(not extension, result == '')": "erased-without-extensions"}
    contract(f"distribution.{_cls}.generate_string", props=["C11", "C01"],
             params=dict(self=Ref(_cls), extension=BOOL), returns=STR, ensures=list(_e), labels=_e, modifies=[], allocates=False)
    contract(f"distribution.{_cls}.generable", is_property=True, props=["C15"],
             params=dict(self=Ref(_cls)), returns=BOOL, value="True", ensures=["result"], labels={"result": "always-generable"}, modifies=[], allocates=False)
