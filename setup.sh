#!/bin/bash
# Build the overlay venv offline (wheelhouse only) on top of /venv (rdkit, numpy, scipy, networkx, gbigsmiles editable -> /repo/src).
set -e
cd "$(dirname "$0")"
if [ ! -x .venv/bin/python ] || ! .venv/bin/python -c "import z3, cvc5, gbigsmiles" 2>/dev/null; then
  rm -rf .venv
  /venv/bin/python -m venv .venv
  PIP_NO_INDEX=1 .venv/bin/pip install -q --no-index --find-links /opt/veriftools/wheels z3-solver cvc5 icontract deal crosshair-tool jsonschema
  echo "import site; site.addsitedir('/venv/lib/python3.12/site-packages')" > .venv/lib/python3.12/site-packages/zz_repo.pth
fi
.venv/bin/python -c "import z3, gbigsmiles, rdkit; print('setup ok', z3.get_version_string())"
